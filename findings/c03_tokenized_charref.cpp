// C03: a character reference to TAB/LF/CR in an attribute of a tokenized type (XML 1.0 3.3.3: the referenced character is appended as it
// is; only #x20 characters are then trimmed and collapsed).  The two attribute paths of the scanner disagreed: with namespace processing OFF
// (scanAttValue) the tab is kept, with namespace processing ON (normalizeAttValue) it was collapsed like literal white space.
#include <xercesc/util/PlatformUtils.hpp>
#include <xercesc/parsers/SAXParser.hpp>
#include <xercesc/sax/HandlerBase.hpp>
#include <xercesc/sax/AttributeList.hpp>
#include <xercesc/framework/MemBufInputSource.hpp>
#include <cstdio>
#include <cstring>
#include <string>
using namespace xercesc;
struct H : HandlerBase { std::string v; void startElement(const XMLCh* const, AttributeList& a) { if (a.getLength()) { char* s = XMLString::transcode(a.getValue((XMLSize_t)0)); v = s; XMLString::release(&s); } } };
static std::string run(bool ns) {
  const char* doc = "<!DOCTYPE r [<!ATTLIST r t NMTOKENS #IMPLIED>]><r t='a&#9;b'/>";
  SAXParser p; H h; p.setDocumentHandler(&h); p.setDoNamespaces(ns);
  MemBufInputSource src((const XMLByte*)doc, strlen(doc), "m"); p.parse(src); return h.v;
}
int main() {
  XMLPlatformUtils::Initialize();
  std::string off = run(false), on = run(true);
  printf("namespaces off: [%s] (%s)\nnamespaces on : [%s] (%s)\n", off.c_str(), off == "a\tb" ? "tab kept" : "tab collapsed", on.c_str(), on == "a\tb" ? "tab kept" : "tab collapsed");
  int rc = (off == "a\tb" && on == "a\tb") ? 0 : 1;
  XMLPlatformUtils::Terminate();
  return rc;
}
