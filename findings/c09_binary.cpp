// Public-API reproducer for the C09/C01 hexBinary / base64Binary findings (normally built library).
#include <xercesc/util/PlatformUtils.hpp>
#include <xercesc/util/HexBin.hpp>
#include <xercesc/util/Base64.hpp>
#include <xercesc/framework/psvi/XSValue.hpp>
#include <cstdio>
using namespace xercesc;
int main() {
  XMLPlatformUtils::Initialize(); int bad = 0;
  MemoryManager* mm = XMLPlatformUtils::fgMemoryManager;
  { // HexBin::decodeToXMLByte indexes its 255-entry table with an unchecked 16-bit unit (reachable through XSValue::getActualValue without validation)
    unsigned accepted = 0, first = 0;
    for (unsigned c = 0x100; c <= 0xFFFF; c++) {
      XMLCh s[3] = { (XMLCh)c, '0', 0 };
      XMLByte* d = HexBin::decodeToXMLByte(s, mm);
      if (d) { if (!accepted) first = c; accepted++; mm->deallocate(d); }
    }
    if (accepted) { printf("DEFECT hexBinary: %u strings with a non-hex character >= U+0100 decode successfully (first U+%04X): table read out of bounds\n", accepted, first); bad++; }
    XMLCh t[3] = { 0x4E2D, '0', 0 }; XSValue::Status st;
    XSValue* v = XSValue::getActualValue(t, XSValue::dt_hexBinary, st, XSValue::ver_10, false, mm);
    printf("  XSValue::getActualValue(U+4E2D '0', hexBinary, toValidate=false) -> %s\n", v ? "value (out-of-bounds table read)" : "rejected");
    delete v;
  }
  { // base64: 16-bit units are truncated to 8 bits before validation
    XMLCh s[5] = { 0x0151, 0x0151, '=', '=', 0 };   // U+0151 truncates to 'Q'
    int n = Base64::getDataLength(s, mm, Base64::Conf_Schema);
    if (n != -1) { printf("DEFECT base64Binary: \"\\u0151\\u0151==\" accepted as valid (length %d): code units truncated to 8 bits\n", n); bad++; }
    XMLCh u[6] = { 'Q', 'Q', '=', '=', 0x0100, 0 }; // U+0100 truncates to NUL: string silently cut
    n = Base64::getDataLength(u, mm, Base64::Conf_Schema);
    if (n != -1) { printf("DEFECT base64Binary: \"QQ==\\u0100\" accepted as valid (length %d)\n", n); bad++; }
  }
  XMLPlatformUtils::Terminate();
  return bad ? 1 : 0;
}
