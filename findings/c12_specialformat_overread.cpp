// C12/C01: XMLFormatter::formatBuf(ptr, count) with UnRep_CharRef examined the unit one past the buffer after a trailing unrepresentable
// character (specialFormat: "srcPtr++; if (fXCoder->canTranscodeTo(*srcPtr))").  Run under valgrind: findings/run.sh builds it, then
//   valgrind -q --error-exitcode=9 ./a.out       (exit 9 before the fix: invalid read of size 2)
#include <xercesc/util/PlatformUtils.hpp>
#include <xercesc/framework/XMLFormatter.hpp>
#include <xercesc/framework/MemBufFormatTarget.hpp>
#include <cstdlib>
#include <cstdio>
using namespace xercesc;
int main() {
  XMLPlatformUtils::Initialize();
  {
    MemBufFormatTarget tgt;
    XMLFormatter fmt("US-ASCII", "1.0", &tgt, XMLFormatter::CharEscapes, XMLFormatter::UnRep_CharRef);
    XMLCh* buf = (XMLCh*)malloc(1 * sizeof(XMLCh)); buf[0] = 0x818;      // exactly one unit, no terminator: the API takes (ptr, count)
    fmt.formatBuf(buf, 1, XMLFormatter::DefaultEscape, XMLFormatter::DefaultUnRep);
    printf("%.*s\n", (int)tgt.getLen(), (const char*)tgt.getRawBuffer());
    free(buf);
  }
  XMLPlatformUtils::Terminate();
  return 0;
}
