#include <xercesc/util/PlatformUtils.hpp>
#include <xercesc/parsers/SAXParser.hpp>
#include <xercesc/sax/HandlerBase.hpp>
#include <xercesc/framework/MemBufInputSource.hpp>
#include <cstdio>
#include <cstring>
using namespace xercesc;
struct H : HandlerBase { int errs; H() : errs(0) {} void error(const SAXParseException&) { errs++; } void fatalError(const SAXParseException& e) { errs++; char* m = XMLString::transcode(e.getMessage()); printf("  fatal: %s\n", m); XMLString::release(&m); } };
// C02/C04/C05: a document whose last bytes are an incomplete multi-byte sequence was accepted silently (XMLReader::xcodeMoreChars returned "no
// more characters" when the transcoder needed more bytes and the stream had none).
int main() { int rc = 0;
  XMLPlatformUtils::Initialize();
  const char* docs[] = { "<a/>\xC3", "<a>x</a>\xE2\x82", "<a>\xC3</a>", "<a>x\xE2\x82", 0 };
  for (int i = 0; docs[i]; i++) {
    SAXParser p; H h; p.setDocumentHandler(&h); p.setErrorHandler(&h);
    MemBufInputSource src((const XMLByte*)docs[i], strlen(docs[i]), "m");
    try { p.parse(src); } catch (...) { h.errs++; printf("  exception\n"); }
    if (h.errs == 0) rc = 1;
    printf("doc %d: %d errors (truncated UTF-8 sequence: a document that ends inside a multi-byte character is not well-formed: must be > 0)\n", i, h.errs);
  }
  XMLPlatformUtils::Terminate();
  return rc;
}
