// C12: a CDATA section whose data contains "]]>" must be split so that no character is lost (DOM L3 LS "split-cdata-sections":
// e.g. <![CDATA[a]]]]><![CDATA[>b]]>); the re-parsed text must be "a]]>b".
#include <xercesc/util/PlatformUtils.hpp>
#include <xercesc/dom/DOM.hpp>
#include <xercesc/framework/MemBufInputSource.hpp>
#include <xercesc/framework/MemBufFormatTarget.hpp>
#include <xercesc/parsers/XercesDOMParser.hpp>
#include <xercesc/util/XMLString.hpp>
#include <cstdio>
#include <cstring>
using namespace xercesc;
int main() {
  XMLPlatformUtils::Initialize();
  int rc = 0;
  {
    static const XMLCh ls[] = { 'L','S',0 }, root[] = { 'r',0 };
    DOMImplementation* impl = DOMImplementationRegistry::getDOMImplementation(ls);
    const char* cases[] = { "a]]>b", "]]>", "a]]>]]>b", "]]>]]>", "plain", "x]]", "]>", 0 };
    for (int ci = 0; cases[ci]; ci++) {
    XMLCh* data = XMLString::transcode(cases[ci]);
    DOMDocument* doc = impl->createDocument(0, root, 0);
    doc->getDocumentElement()->appendChild(doc->createCDATASection(data));
    DOMLSSerializer* ser = ((DOMImplementationLS*)impl)->createLSSerializer();
    ser->getDomConfig()->setParameter(XMLUni::fgDOMWRTSplitCdataSections, true);
    DOMLSOutput* out = ((DOMImplementationLS*)impl)->createLSOutput(); MemBufFormatTarget tgt; out->setByteStream(&tgt);
    static const XMLCh utf8[] = { 'U','T','F','-','8',0 }; out->setEncoding(utf8);
    ser->write(doc, out);
    printf("serialised: %.*s\n", (int)tgt.getLen(), (const char*)tgt.getRawBuffer());
    XercesDOMParser p; MemBufInputSource src(tgt.getRawBuffer(), tgt.getLen(), "mem"); p.parse(src);
    DOMDocument* d2 = p.getDocument();
    char* txt = d2 && d2->getDocumentElement() ? XMLString::transcode(d2->getDocumentElement()->getTextContent()) : 0;
    printf("re-parsed text: \"%s\" (must be \"%s\")\n", txt ? txt : "(null)", cases[ci]);
    if (!txt || strcmp(txt, cases[ci]) != 0) rc = 1;
    XMLString::release(&txt); XMLString::release(&data); out->release(); ser->release(); doc->release();
    }
  }
  XMLPlatformUtils::Terminate();
  return rc;
}
