// C09: "." (also "+." "-." and the same surrounded by white space) is not in the lexical space of xs:decimal
// ([+-]?([0-9]+(\.[0-9]*)?|\.[0-9]+)) but XMLBigDecimal::parseDecimal accepted it as zero.
#include <xercesc/util/PlatformUtils.hpp>
#include <xercesc/util/XMLBigDecimal.hpp>
#include <xercesc/util/XMLString.hpp>
#include <xercesc/util/NumberFormatException.hpp>
#include <cstdio>
using namespace xercesc;
int main() {
  XMLPlatformUtils::Initialize();
  int rc = 0;
  const char* bad[] = { ".", "+.", "-.", " \n.", 0 }; const char* good[] = { "0.", ".0", "-.5", "+12.50", 0 };
  for (int i = 0; bad[i]; i++) {
    XMLCh* x = XMLString::transcode(bad[i]); bool threw = false;
    try { XMLBigDecimal d(x); } catch (const NumberFormatException&) { threw = true; }
    printf("XMLBigDecimal(\"%s\"): %s (must be rejected)\n", bad[i], threw ? "rejected" : "ACCEPTED"); if (!threw) rc = 1;
    XMLString::release(&x);
  }
  for (int i = 0; good[i]; i++) {
    XMLCh* x = XMLString::transcode(good[i]); bool threw = false;
    try { XMLBigDecimal d(x); } catch (const NumberFormatException&) { threw = true; }
    if (threw) { printf("XMLBigDecimal(\"%s\") rejected (must be accepted)\n", good[i]); rc = 1; }
    XMLString::release(&x);
  }
  XMLPlatformUtils::Terminate();
  return rc;
}
