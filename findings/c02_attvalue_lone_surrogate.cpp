// C02: a lone lead surrogate as the LAST character of an attribute value (UTF-16 input) was accepted silently by scanAttValue of the IG/DG/WF scanners
// (the pending-surrogate flag was not tested at the closing quote).
#include <xercesc/util/PlatformUtils.hpp>
#include <xercesc/parsers/SAXParser.hpp>
#include <xercesc/sax/HandlerBase.hpp>
#include <xercesc/framework/MemBufInputSource.hpp>
#include <cstdio>
#include <vector>
using namespace xercesc;
struct H : HandlerBase { int errs; H() : errs(0) {} void error(const SAXParseException&) { errs++; } void fatalError(const SAXParseException& e) { errs++; char* m = XMLString::transcode(e.getMessage()); printf("  fatal: %s\n", m); XMLString::release(&m); } };
static int run(const char16_t* s, size_t n, const char* what) {
  std::vector<XMLByte> b; b.push_back(0xFF); b.push_back(0xFE);
  for (size_t i = 0; i < n; i++) { b.push_back(s[i] & 0xFF); b.push_back(s[i] >> 8); }
  SAXParser p; H h; p.setDocumentHandler(&h); p.setErrorHandler(&h);
  MemBufInputSource src(b.data(), b.size(), "m");
  try { p.parse(src); } catch (...) { h.errs++; }
  printf("%s: %d errors\n", what, h.errs); return h.errs;
}
int main() {
  XMLPlatformUtils::Initialize();
  int rc = 0;
  { const char16_t d[] = u"<a b=\"x\xD800\"/>"; if (run(d, sizeof d / 2 - 1, "lone lead surrogate at the END of an attribute value (must be an error)") == 0) rc = 1; }
  { const char16_t d[] = u"<a b=\"\xD800x\"/>"; if (run(d, sizeof d / 2 - 1, "lone lead surrogate inside an attribute value (must be an error)") == 0) rc = 1; }
  { const char16_t d[] = u"<a>x\xD800</a>"; if (run(d, sizeof d / 2 - 1, "lone lead surrogate at the END of character data (must be an error)") == 0) rc = 1; }
  { const char16_t d[] = u"<a b=\"\xD83D\xDE00\"/>"; if (run(d, sizeof d / 2 - 1, "well-formed pair (must be accepted)") != 0) rc = 1; }
  XMLPlatformUtils::Terminate();
  return rc;
}
