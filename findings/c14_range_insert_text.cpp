// C14: DOM Range boundary points under text insertion (DOM Level 2 Range 2.12: a boundary point after the insertion point moves by the
// inserted length; the range keeps denoting the same content).  Range over "e" of "abcdef", then insertData(2,"XY").
#include <xercesc/util/PlatformUtils.hpp>
#include <xercesc/dom/DOM.hpp>
#include <cstdio>
using namespace xercesc;
int main() {
  XMLPlatformUtils::Initialize();
  int rc = 0;
  {
    static const XMLCh core[] = { 'C','o','r','e',0 }, root[] = { 'r',0 }, txt[] = { 'a','b','c','d','e','f',0 }, ins[] = { 'X','Y',0 };
    DOMImplementation* impl = DOMImplementationRegistry::getDOMImplementation(core);
    DOMDocument* doc = impl->createDocument(0, root, 0);
    DOMText* t = doc->createTextNode(txt); doc->getDocumentElement()->appendChild(t);
    DOMRange* r = doc->createRange(); r->setStart(t, 4); r->setEnd(t, 5);
    t->insertData(2, ins);
    printf("after insertData(2,\"XY\"): start=%lu end=%lu (DOM Range: start=6 end=7)\n", (unsigned long)r->getStartOffset(), (unsigned long)r->getEndOffset());
    if (r->getStartOffset() != 6 || r->getEndOffset() != 7) rc = 1;
    doc->release();
  }
  XMLPlatformUtils::Terminate();
  return rc;
}
