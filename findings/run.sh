#!/bin/sh
# build and run one public-API reproducer against the normally built library: ./run.sh <file.cpp> [args]
set -e
f=$1; shift
out=$(mktemp -d)
g++ -std=gnu++17 -DHAVE_CONFIG_H=1 -I/repo/src -I/repo/_build/src -I/repo/_build "$(dirname $0)/$f" -o $out/a.out -L/repo/_build/src -l:libxerces-c-4.0.so -Wl,-rpath,/repo/_build/src
set +e
${VX_RUNNER:-} $out/a.out "$@"; rc=$?
rm -rf $out
exit $rc
