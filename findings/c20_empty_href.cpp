// XIncludeLocation("") -> removeDotDotSlash on a 1-unit buffer starts scanning at path[1]: heap read past the block (run under valgrind)
#include <xercesc/util/PlatformUtils.hpp>
#include <xercesc/xinclude/XIncludeLocation.hpp>
#include <cstdio>
using namespace xercesc;
int main() {
  XMLPlatformUtils::Initialize();
  { static const XMLCh empty[] = { 0 }; XIncludeLocation loc(empty); printf("location length-0 ok: %p\n", (const void*)loc.getLocation()); }
  XMLPlatformUtils::Terminate();
  return 0;
}
