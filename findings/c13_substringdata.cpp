// DOM Core: substringData(offset, count) with offset+count beyond the length returns the characters to the end of the data.
// A count above 4095 on a short text node makes DOMCharacterDataImpl::substringData write temp[count] = 0 outside its 4096-unit stack buffer.
#include <xercesc/util/PlatformUtils.hpp>
#include <xercesc/dom/DOM.hpp>
#include <xercesc/util/XMLString.hpp>
#include <cstdio>
#include <cstdlib>
using namespace xercesc;
int main(int argc, char** argv) {
  XMLPlatformUtils::Initialize();
  unsigned long count = argc > 1 ? strtoul(argv[1], 0, 0) : 20000;
  {
    static const XMLCh core[] = { 'C', 'o', 'r', 'e', 0 }, root[] = { 'r', 0 }, txt[] = { 'h', 'e', 'l', 'l', 'o', 0 };
    DOMImplementation* impl = DOMImplementationRegistry::getDOMImplementation(core);
    DOMDocument* doc = impl->createDocument(0, root, 0);
    DOMText* t = doc->createTextNode(txt);
    const XMLCh* s = t->substringData(1, count);        // legal: count may exceed the length
    char* c = XMLString::transcode(s); printf("substringData(1, %lu) = \"%s\"\n", count, c); XMLString::release(&c);
    doc->release();
  }
  XMLPlatformUtils::Terminate();
  return 0;
}
