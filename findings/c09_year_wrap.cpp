// C09: XMLDateTime::parseInt accumulated in an unsigned int and returned an int: a year of ten or more digits silently wrapped around
// (4294969297-01-01 was taken for the year 2001, 3000000000-01-01 for a negative year, 8589934592-01-01 rejected as "year 0000").
// A processor may limit the number of year digits, but then it has to refuse the value, not change it.
#include <xercesc/util/PlatformUtils.hpp>
#include <xercesc/util/XMLDateTime.hpp>
#include <xercesc/util/XMLString.hpp>
#include <xercesc/util/XMLException.hpp>
#include <cstdio>
using namespace xercesc;
int main() {
  XMLPlatformUtils::Initialize();
  int rc = 0;
  const char* vals[] = { "4294969297-01-01", "3000000000-01-01", "8589934592-01-01", 0 };
  for (int i = 0; vals[i]; i++) {
    XMLCh* x = XMLString::transcode(vals[i]); bool threw = false; int year = 0;
    try { XMLDateTime d(x); d.parseDate(); year = d.getYear(); } catch (const XMLException&) { threw = true; }
    printf("xs:date %s: %s", vals[i], threw ? "refused\n" : "ACCEPTED as year "); if (!threw) { printf("%d\n", year); rc = 1; }
    XMLString::release(&x);
  }
  { XMLCh* x = XMLString::transcode("2147483647-01-01"); bool threw = false; int year = 0;
    try { XMLDateTime d(x); d.parseDate(); year = d.getYear(); } catch (const XMLException&) { threw = true; }
    printf("xs:date 2147483647-01-01: %s (year %d) - the largest year that fits must still be accepted\n", threw ? "refused" : "accepted", year); if (threw || year != 2147483647) rc = 1;
    XMLString::release(&x); }
  XMLPlatformUtils::Terminate();
  return rc;
}
