// Public-API reproducer (normally built library) for the C05 transcoder findings.
// exit 0 = all behave correctly; prints one line per defect otherwise.
#include <xercesc/util/PlatformUtils.hpp>
#include <xercesc/util/TransService.hpp>
#include <xercesc/util/XMLUni.hpp>
#include <xercesc/util/XMLException.hpp>
#include <cstdio>
using namespace xercesc;
int main() {
  XMLPlatformUtils::Initialize(); int bad = 0;
  XMLTransService::Codes rc;
  {  // (1) UCS-4 decode accepts a value that is no Unicode scalar value
    XMLTranscoder* t = XMLPlatformUtils::fgTransService->makeNewTranscoderFor(XMLUni::fgUCS4LEncodingString, rc, 1024, XMLPlatformUtils::fgMemoryManager);
    const XMLByte in[4] = { 0x00, 0x00, 0x01, 0x04 };   // 0x04010000 little endian
    XMLCh out[4]; unsigned char sz[4]; XMLSize_t eaten = 0; bool threw = false; XMLSize_t n = 0;
    try { n = t->transcodeFrom(in, 4, out, 4, eaten, sz); } catch (const XMLException&) { threw = true; }
    if (!threw) { printf("DEFECT ucs4-decode: 0x04010000 accepted, decoded to %zu units %04X %04X\n", n, out[0], out[1]); bad++; }
    const XMLByte in2[4] = { 0x00, 0xD8, 0x00, 0x00 };  // U+D800 (surrogate code point)
    threw = false;
    try { n = t->transcodeFrom(in2, 4, out, 4, eaten, sz); } catch (const XMLException&) { threw = true; }
    if (!threw) { printf("DEFECT ucs4-decode: surrogate code point D800 accepted\n"); bad++; }
    delete t;
  }
  {  // (2) byte-swapped UCS-4 encode of a supplementary character is not swapped
    XMLTranscoder* t = XMLPlatformUtils::fgTransService->makeNewTranscoderFor(XMLUni::fgUCS4BEncodingString, rc, 1024, XMLPlatformUtils::fgMemoryManager);
    const XMLCh in[2] = { 0xD800, 0xDC00 };              // U+10000
    XMLByte out[8] = { 0 }; XMLSize_t eaten = 0;
    XMLSize_t n = t->transcodeTo(in, 2, out, 8, eaten, XMLTranscoder::UnRep_Throw);
    if (!(n == 4 && out[0] == 0x00 && out[1] == 0x01 && out[2] == 0x00 && out[3] == 0x00)) {
      printf("DEFECT ucs4-encode: U+10000 as UCS-4BE = %02X %02X %02X %02X (want 00 01 00 00)\n", out[0], out[1], out[2], out[3]); bad++; }
    delete t;
  }
  {  // (3) single-byte code page claims to represent a supplementary code point
    XMLTranscoder* t = XMLPlatformUtils::fgTransService->makeNewTranscoderFor(XMLUni::fgWin1252EncodingString, rc, 1024, XMLPlatformUtils::fgMemoryManager);
    if (t->canTranscodeTo(0x10041)) { printf("DEFECT 256-table: windows-1252 canTranscodeTo(U+10041) == true\n"); bad++; }
    delete t;
  }
  XMLPlatformUtils::Terminate();
  return bad ? 1 : 0;
}
