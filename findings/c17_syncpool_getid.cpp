// Public-API reproducer: the URI string pool of a LOCKED grammar pool answers getId() of a never-seen string with a legal id
// (that of the last string of the underlying pool) instead of 0; the unlocked pool answers 0.
#include <xercesc/util/PlatformUtils.hpp>
#include <xercesc/framework/XMLGrammarPoolImpl.hpp>
#include <xercesc/util/StringPool.hpp>
#include <xercesc/util/XMLString.hpp>
#include <cstdio>
using namespace xercesc;
int main() {
  XMLPlatformUtils::Initialize(); int bad = 0;
  {
    XMLGrammarPoolImpl pool(XMLPlatformUtils::fgMemoryManager);
    XMLCh* a = XMLString::transcode("urn:a"); XMLCh* b = XMLString::transcode("urn:b"); XMLCh* never = XMLString::transcode("urn:never-seen");
    XMLStringPool* sp = pool.getURIStringPool();
    unsigned ia = sp->addOrFind(a), ib = sp->addOrFind(b);
    unsigned before = sp->getId(never);
    pool.lockPool();
    XMLStringPool* lp = pool.getURIStringPool();
    unsigned after = lp->getId(never);
    printf("ids: urn:a=%u urn:b=%u; getId(never-seen): unlocked=%u locked=%u\n", ia, ib, before, after);
    if (after != 0) { printf("DEFECT: locked pool maps an unknown URI to id %u = \"%s\"\n", after, XMLString::transcode(lp->getValueForId(after))); bad++; }
    pool.unlockPool();
    XMLString::release(&a); XMLString::release(&b); XMLString::release(&never);
  }
  XMLPlatformUtils::Terminate();
  return bad ? 1 : 0;
}
