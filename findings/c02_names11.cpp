// C02/C01: XMLChar1_1 name recognisers on (pointer, count) input.
//  (a) a lone lead surrogate as the LAST unit is accepted as a Name/NCName (dangling surrogate never rejected);
//  (b) with count == 1 and a lead surrogate the unit BEHIND the buffer is read (run under valgrind to see it) and decides the verdict;
//  (c) isValidQName looks for the colon with XMLString::indexOf, i.e. up to a terminator and not up to count.
#include <xercesc/util/PlatformUtils.hpp>
#include <xercesc/util/XMLChar.hpp>
#include <cstdlib>
#include <cstdio>
using namespace xercesc;
int main() {
  XMLPlatformUtils::Initialize();
  int rc = 0;
  { XMLCh* b = (XMLCh*)malloc(2 * sizeof(XMLCh)); b[0] = 'a'; b[1] = 0xD800;
    bool r = XMLChar1_1::isValidNCName(b, 2); printf("isValidNCName({'a', U+D800}, 2) = %d (must be 0: lone surrogate)\n", r); if (r) rc = 1; free(b); }
  { XMLCh* b = (XMLCh*)malloc(4 * sizeof(XMLCh)); b[0] = 'a'; b[1] = 'b'; b[2] = ':'; b[3] = 0;      // only the first two units are the name
    bool r = XMLChar1_1::isValidQName(b, 2); printf("isValidQName(\"ab\" [followed by ':' outside the count], 2) = %d (must be 1)\n", r); if (!r) rc = 1; free(b); }
  { XMLCh* b = (XMLCh*)malloc(1 * sizeof(XMLCh)); b[0] = 0xD800;
    bool r = XMLChar1_1::isValidName(b, 1); printf("isValidName({U+D800}, 1) = %d (must be 0; reads b[1])\n", r); if (r) rc = 1; free(b); }
  XMLPlatformUtils::Terminate();
  return rc;
}
