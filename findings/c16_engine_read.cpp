// C16: XSerializeEngine::read(XMLByte*, len) left the load cursor at the start of the last block when the run ended exactly on a block
// boundary after spanning at least one whole block: the items following the run were then read from the run's last block again.
// 14 single bytes + a 34-byte run (= 3 blocks of 16) + a marker byte; the marker must come back.
#include <xercesc/util/PlatformUtils.hpp>
#include <xercesc/internal/XSerializeEngine.hpp>
#include <xercesc/internal/BinMemOutputStream.hpp>
#include <xercesc/util/BinMemInputStream.hpp>
#include <xercesc/framework/XMLGrammarPoolImpl.hpp>
#include <cstdio>
using namespace xercesc;
int main() {
  XMLPlatformUtils::Initialize();
  int rc = 0;
  {
    XMLGrammarPoolImpl pool(XMLPlatformUtils::fgMemoryManager);
    BinMemOutputStream out(1024);
    XMLByte run[34], back[34]; for (int i = 0; i < 34; i++) run[i] = (XMLByte)(100 + i);
    {
      XSerializeEngine st(&out, &pool, 16);
      for (int i = 0; i < 14; i++) st << (XMLByte)(i + 1);
      st.write(run, 34);
      st << (XMLByte)0xEE;
      st.flush();
    }
    BinMemInputStream in(out.getRawBuffer(), (XMLSize_t)out.curPos(), BinMemInputStream::BufOpt_Reference);
    XSerializeEngine ld(&in, &pool, 16);
    XMLByte b; for (int i = 0; i < 14; i++) { ld >> b; if (b != i + 1) rc = 1; }
    ld.read(back, 34);
    for (int i = 0; i < 34; i++) if (back[i] != run[i]) rc = 1;
    XMLByte marker = 0; ld >> marker;
    printf("marker read back after a run ending on a block boundary: 0x%02X (written 0xEE)\n", marker);
    if (marker != 0xEE) rc = 1;
  }
  XMLPlatformUtils::Terminate();
  return rc;
}
