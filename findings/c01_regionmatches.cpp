// C01: XMLString::regionMatches / regionIMatches validated the region with (offset + charCount) > length, which wraps around for a huge
// charCount: the region is taken for valid and compareNString runs off the end of both strings (run under valgrind / ASan to see the reads;
// here the symptom is the wrong answer "true"/crash instead of false).
#include <xercesc/util/PlatformUtils.hpp>
#include <xercesc/util/XMLString.hpp>
#include <cstdio>
#include <cstdlib>
using namespace xercesc;
int main() {
  XMLPlatformUtils::Initialize();
  XMLCh* a = (XMLCh*)malloc(4 * sizeof(XMLCh)); XMLCh* b = (XMLCh*)malloc(4 * sizeof(XMLCh));
  a[0] = 'x'; a[1] = 'y'; a[2] = 'z'; a[3] = 0; b[0] = 'x'; b[1] = 'y'; b[2] = 'z'; b[3] = 0;
  bool r = XMLString::regionMatches(a, 2, b, 2, (XMLSize_t)-2);          // 2 + (2^64 - 2) wraps to 0
  printf("regionMatches(\"xyz\", 2, \"xyz\", 2, SIZE_MAX-1) = %d (must be 0: the region is not inside the strings)\n", r);
  free(a); free(b);
  XMLPlatformUtils::Terminate();
  return r ? 1 : 0;
}
