// C13: inserting a node into itself must raise HIERARCHY_REQUEST_ERR and leave the tree unchanged (DOM Core insertBefore/appendChild).
#include <xercesc/util/PlatformUtils.hpp>
#include <xercesc/dom/DOM.hpp>
#include <cstdio>
using namespace xercesc;
int main() {
  XMLPlatformUtils::Initialize();
  int rc = 0;
  {
    static const XMLCh core[] = { 'C','o','r','e',0 }, root[] = { 'r',0 }, en[] = { 'e',0 }, kn[] = { 'k',0 };
    DOMImplementation* impl = DOMImplementationRegistry::getDOMImplementation(core);
    DOMDocument* doc = impl->createDocument(0, root, 0);
    for (int withKid = 0; withKid < 2; withKid++) {
      DOMElement* e = doc->createElement(en);
      if (withKid) e->appendChild(doc->createElement(kn));
      int code = -1;
      try { e->appendChild(e); } catch (const DOMException& x) { code = x.code; }
      bool selfParent = e->getParentNode() == e, selfChild = false;
      for (DOMNode* c = e->getFirstChild(); c; c = c->getNextSibling()) { if (c == e) { selfChild = true; break; } }
      printf("e.appendChild(e), e %s: exception code %d (want %d), e is its own parent: %d, e is its own child: %d\n", withKid ? "with a child" : "childless", code,
             (int)DOMException::HIERARCHY_REQUEST_ERR, selfParent, selfChild);
      if (code != DOMException::HIERARCHY_REQUEST_ERR || selfParent || selfChild) rc = 1;
    }
  }
  XMLPlatformUtils::Terminate();     // (the damaged document is not released: walking it would not terminate)
  return rc;
}
