// Public-API reproducer: a UTF-16 document whose element name ends, exactly at the end of the input, with a lone lead surrogate placed at the
// last position of the reader's 16K character window.  XMLReader::getName refills (nothing arrives), then looks at the stale unit after the
// lead; if that is a trail surrogate it consumes two units, fCharIndex passes fCharsAvail and the next refill computes a huge "spare" count.
#include <xercesc/util/PlatformUtils.hpp>
#include <xercesc/parsers/SAXParser.hpp>
#include <xercesc/framework/MemBufInputSource.hpp>
#include <xercesc/sax/HandlerBase.hpp>
#include <xercesc/sax/SAXParseException.hpp>
#include <cstdio>
#include <vector>
using namespace xercesc;
struct H : HandlerBase { int fatal = 0; unsigned long col = 0; void fatalError(const SAXParseException& e) { fatal++; col = e.getColumnNumber(); } void error(const SAXParseException&) {} void warning(const SAXParseException&) {} };
int main(int argc, char** argv) {
  bool srcofs = argc > 1;
  XMLPlatformUtils::Initialize(); int rc = 0;
  {
    std::vector<unsigned char> d; auto put = [&](unsigned u) { d.push_back(u & 0xFF); d.push_back(u >> 8); };
    put(0xFEFF); put('<'); for (int i = 0; i < 16383; i++) put('a'); put(0xD800); put(0xDC00); put(0xD800);   // 16384 units fill the window up to the first pair; then the lone lead
    MemBufInputSource src(d.data(), d.size(), "mem");
    SAXParser p; H h; p.setErrorHandler(&h); p.setDocumentHandler(&h); p.setExitOnFirstFatalError(false); if (srcofs) p.setCalculateSrcOfs(true);
    try { p.parse(src); } catch (...) { }
    printf("fatal errors=%d, column of last=%lu (document has %zu characters)\n", h.fatal, h.col, d.size() / 2 - 1);
    if (h.col > d.size() / 2 + 2) { printf("DEFECT: error position beyond the end of the document: the reader ran past its input\n"); rc = 1; }
  }
  XMLPlatformUtils::Terminate();
  return rc;
}
