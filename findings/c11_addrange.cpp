// Public-API reproducer: a character class whose second range starts inside the first and extends beyond it.
#include <xercesc/util/PlatformUtils.hpp>
#include <xercesc/util/regx/RegularExpression.hpp>
#include <xercesc/util/XMLString.hpp>
#include <cstdio>
using namespace xercesc;
static bool m(const char* pat, const char* s, const char* opt = 0) {
  XMLCh* p = XMLString::transcode(pat); XMLCh* t = XMLString::transcode(s); XMLCh* o = opt ? XMLString::transcode(opt) : 0;
  bool r;
  { RegularExpression re(p, o); r = re.matches(t); }
  XMLString::release(&p); XMLString::release(&t); if (o) XMLString::release(&o);
  return r;
}
int main() {
  XMLPlatformUtils::Initialize(); int bad = 0;
  struct { const char* pat; const char* s; bool want; } t[] = {
    { "[a-mf-z]", "x", true }, { "[a-mf-z]", "n", true }, { "[a-mf-z]", "c", true }, { "[a-mf-z]+", "hello", true },
    { "[0-5 3-9]", "8", true }, { "[a-cb-e]", "e", true }, { "[a-cb-e]", "d", true },
  };
  for (auto& c : t) {
    bool r = m(c.pat, c.s);
    if (r != c.want) { printf("DEFECT regex: \"%s\" matches(\"%s\") = %d, expected %d (schema syntax)\n", c.pat, c.s, r, c.want); bad++; }
    bool r2 = m(c.pat, c.s, "X");
    if (r2 != c.want) { printf("DEFECT regex: \"%s\" matches(\"%s\") = %d, expected %d (option X)\n", c.pat, c.s, r2, c.want); bad++; }
  }
  XMLPlatformUtils::Terminate();
  return bad ? 1 : 0;
}
