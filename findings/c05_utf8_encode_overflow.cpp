// C05/C01: XMLUTF8Transcoder::transcodeTo wrote the replacement character for an unrepresentable value (a lead surrogate followed by a unit
// that is not a trail surrogate can compose to >= 0x110000) without checking for room: one byte behind toFill + maxBytes, and a byte count
// larger than maxBytes.  U+082E fills a 3-byte block; the ill-formed pair that follows must be left for the next call.
#include <xercesc/util/PlatformUtils.hpp>
#include <xercesc/util/TransService.hpp>
#include <cstdio>
#include <cstdlib>
using namespace xercesc;
int main() {
  XMLPlatformUtils::Initialize();
  int rc = 0;
  {
    XMLTransService::Codes res;
    XMLTranscoder* t = XMLPlatformUtils::fgTransService->makeNewTranscoderFor("UTF-8", res, 64, XMLPlatformUtils::fgMemoryManager);
    XMLCh src[3] = { 0x082E, 0xDBFB, 0xFF1E };
    XMLByte* out = (XMLByte*)malloc(8); for (int i = 0; i < 8; i++) out[i] = 0xEE;
    XMLSize_t eaten = 0; XMLSize_t n = t->transcodeTo(src, 3, out, 3, eaten, XMLTranscoder::UnRep_RepChar);
    printf("transcodeTo(maxBytes = 3) returned %lu bytes, byte behind the block = 0x%02X (must be <= 3 and 0xEE)\n", (unsigned long)n, out[3]);
    if (n > 3 || out[3] != 0xEE) rc = 1;
    free(out); delete t;
  }
  XMLPlatformUtils::Terminate();
  return rc;
}
