// Cuts for C16/storedv.cpp: engine insertion operators and the built-in registry -> recorders.
#include "vx.h"
#include <xercesc/util/XercesDefs.hpp>
using namespace xercesc;
extern int vx_ints_n; extern int vx_ints[3]; extern int vx_strs_n; extern const void* vx_str; extern int vx_objs_n; extern void* vx_obj; extern void* vx_reg_answer; extern const void* vx_reg_key; extern int vx_reg_gets;
#define R "_ZN11xercesc_4_014RefHashTableOfINS_17DatatypeValidatorENS_12StringHasherEE"
#define RK "_ZNK11xercesc_4_014RefHashTableOfINS_17DatatypeValidatorENS_12StringHasherEE"
extern "C" {
void* vx_lsint(void* e, int v) asm("_ZN11xercesc_4_016XSerializeEnginelsEi"); void* vx_lsint(void* e, int v) { if (vx_ints_n < 3) vx_ints[vx_ints_n] = v; vx_ints_n++; return e; }
void vx_wstr(void*, const XMLCh* s, unsigned long, bool) asm("_ZN11xercesc_4_016XSerializeEngine11writeStringEPKDsmb"); void vx_wstr(void*, const XMLCh* s, unsigned long, bool) { vx_strs_n++; vx_str = s; }
void vx_wobj(void* e, void* o) asm("_ZN11xercesc_4_016XSerializeEngine5writeEPNS_13XSerializableE"); void vx_wobj(void* e, void* o) { vx_objs_n++; vx_obj = o; }
void* vx_rget(void*, const void* k) asm(R "3getEPKv"); void* vx_rget(void*, const void* k) { vx_reg_gets++; vx_reg_key = k; return vx_reg_answer; }
bool vx_rhas(const void*, const void* k) asm(RK "11containsKeyEPKv"); bool vx_rhas(const void*, const void* k) { vx_reg_gets++; vx_reg_key = k; return vx_reg_answer != 0; }
}
