// C16-P3: how a datatype validator reference is written into a serialised grammar (real DatatypeValidator::storeDV): as the NAME of a
// built-in type only when the validator IS the built-in registered under that name, else by value - a user type that merely shares its
// local name with a built-in (t:token, t:integer in another namespace) must be stored with its facets.  The serialisation engine's
// insertion operators and the built-in registry are cut to recorders with arbitrary answers.  For EVERY combination of: validator absent,
// registry answer for its local name = the validator itself / another object / nothing: exactly one of the three encodings is written, the
// by-name one exactly when the registry holds this very object.
#include "vx.h"
#include "vx_open.h"
#include <xercesc/validators/datatype/DatatypeValidator.hpp>
#include <xercesc/validators/datatype/DatatypeValidatorFactory.hpp>
#include <xercesc/validators/datatype/StringDatatypeValidator.hpp>
#include <xercesc/internal/XSerializeEngine.hpp>
#include "vx_close.h"
#define VX_STUB_XMLEXCEPTION
#define VX_STUB_XMEMORY
#include "vx_stubs.hpp"
int vx_ints_n; int vx_ints[3]; int vx_strs_n; const void* vx_str; int vx_objs_n; void* vx_obj; void* vx_reg_answer; const void* vx_reg_key; int vx_reg_gets;
extern "C" void harness_storedv(void) {
  static VxRaw<XSerializeEngine> er; static VxRaw<StringDatatypeValidator> d1, d2;
  static const XMLCh nm[] = { 't', 'o', 'k', 'e', 'n', 0 };
  StringDatatypeValidator* dv = &d1.obj; dv->fTypeLocalName = nm; dv->fType = DatatypeValidator::String;
  bool absent = nondet_bool(); unsigned ans = nondet_u8() % 3;
  vx_reg_answer = ans == 0 ? (void*)(DatatypeValidator*)dv : ans == 1 ? (void*)(DatatypeValidator*)&d2.obj : (void*)0;
  DatatypeValidator::storeDV(er.obj, absent ? 0 : dv);
  if (absent) { VX_ASSERT(vx_ints_n == 1 && vx_ints[0] == -3 && vx_strs_n == 0 && vx_objs_n == 0, "an absent validator is written as the null marker only"); VX_REACH("null marker"); return; }
  VX_ASSERT(vx_reg_gets >= 1 && vx_reg_key == (const void*)nm, "the built-in registry is asked for the validator's local name");
  if (ans == 0) {
    VX_ASSERT(vx_ints_n == 1 && vx_ints[0] == -1 && vx_strs_n == 1 && vx_str == (const void*)nm && vx_objs_n == 0, "the registered built-in itself is written by name");
    VX_REACH("built-in by name");
  } else {
    VX_ASSERT(vx_ints_n == 2 && vx_ints[0] == -2 && vx_ints[1] == (int)DatatypeValidator::String && vx_objs_n == 1 && vx_obj == (void*)(XSerializable*)dv && vx_strs_n == 0,
              "a validator that is not the registered built-in object - even if a built-in of the same local name exists - is written by value with its type code");
    if (ans == 1) VX_REACH("user type shadowing a built-in name written by value");
  }
}
