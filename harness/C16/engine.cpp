// C16-P1: the block-buffered stream of the grammar-pool serialiser (real XSerializeEngine insertion/extraction operators, alignment,
// checkAndFlushBuffer / checkAndFillBuffer / flushBuffer / fillBuffer).  A store-mode engine with a 16-byte block writes a symbolic script
// of K items (each XMLByte / XMLCh / int / unsigned int / unsigned long / bool, symbolic values) into a collecting stream; a load-mode
// engine over exactly those bytes reads the same script; the script starts at an ARBITRARY cursor position of the first block (PRE leading bytes).  Every value read equals the value written, both sides use the same number
// of blocks, the cursor never leaves [fBufStart, fBufEnd], for EVERY script - so every block-boundary / alignment combination.
#include "vx.h"
#include "vx_open.h"
#include <xercesc/internal/XSerializeEngine.hpp>
#include <xercesc/util/BinInputStream.hpp>
#include <xercesc/framework/BinOutputStream.hpp>
#include <xercesc/framework/XMLGrammarPool.hpp>
#include "vx_close.h"
#define VX_STUB_XMLEXCEPTION
#define VX_STUB_XMEMORY
#define VX_STUB_NUMTOTEXT
#include "vx_stubs.hpp"
#ifndef K
#define K 3
#endif
#define BLK 16
#define MAXBLK 4
static XMLByte g_bytes[BLK * MAXBLK]; static XMLSize_t g_written, g_readpos; static bool g_badwrite;
struct OutS : BinOutputStream {
  XMLFilePos curPos() const { return g_written; }
  void writeBytes(const XMLByte* const p, const XMLSize_t n) { if (n != BLK || g_written + n > sizeof g_bytes) { g_badwrite = true; return; } memcpy(g_bytes + g_written, p, BLK); g_written += BLK; }
};
struct InS : BinInputStream {
  XMLFilePos curPos() const { return g_readpos; }
  XMLSize_t readBytes(XMLByte* const p, const XMLSize_t n) { if (n < BLK || g_readpos + BLK > g_written) return 0; memcpy(p, g_bytes + g_readpos, BLK); g_readpos += BLK; return BLK; }
  const XMLCh* getContentType() const { return 0; }
};
static void setup(XSerializeEngine* e, short mode, XMLByte* buf, void* pool, BinInputStream* in, BinOutputStream* out) {
  *(short*)&e->fStoreLoad = mode; e->fStorerLevel = 0; *(void**)&e->fGrammarPool = pool; *(BinInputStream**)&e->fInputStream = in; *(BinOutputStream**)&e->fOutputStream = out;
  e->fBufCount = 0; *(XMLSize_t*)&e->fBufSize = BLK; *(XMLByte**)&e->fBufStart = buf; *(XMLByte**)&e->fBufEnd = (mode == XSerializeEngine::mode_Store) ? buf + BLK : 0;
  e->fBufCur = buf; e->fBufLoadMax = (mode == XSerializeEngine::mode_Store) ? 0 : buf; e->fStorePool = 0; e->fLoadPool = 0; e->fObjectCount = 0;
}
extern "C" void harness_engine(void) {
  VxMM mm;
  struct PoolLayout { void* vptr; MemoryManager* mgr; bool ign; };      // XMLGrammarPool is abstract: only its memory-manager field is read (getMemoryManager is inline, non-virtual)
  static PoolLayout poolr; void* pool = &poolr; poolr.mgr = &mm;
  VX_ASSERT((char*)&((XMLGrammarPool*)pool)->fMemMgr == (char*)&poolr.mgr, "pool stub layout matches XMLGrammarPool");
  static VxRaw<XSerializeEngine> se, le;
  alignas(8) static XMLByte sbuf[BLK], lbuf[BLK];
  OutS out; InS in;
  XSerializeEngine* S = &se.obj; XSerializeEngine* L = &le.obj;
  setup(S, XSerializeEngine::mode_Store, sbuf, pool, 0, &out);
  unsigned kind[K]; unsigned long val[K]; bool threw = false;
  // arbitrary cursor position inside the first block when the script starts: PRE single bytes are written first
  unsigned pre = nondet_u8(); VX_ASSUME(pre < BLK);
  try {
    for (unsigned i = 0; i < BLK; i++) if (i < pre) *S << (XMLByte)(0x40 + i);
    for (int i = 0; i < K; i++) {
      kind[i] = nondet_u8() % 6; val[i] = nondet_u64();
      switch (kind[i]) {
        case 0: *S << (XMLByte)val[i]; break;
        case 1: *S << (XMLCh)val[i]; break;
        case 2: *S << (int)val[i]; break;
        case 3: *S << (unsigned int)val[i]; break;
        case 4: *S << (unsigned long)val[i]; break;
        default: *S << (bool)(val[i] & 1); break;
      }
      VX_ASSERT(S->fBufCur >= S->fBufStart && S->fBufCur <= S->fBufEnd, "store cursor stays inside the block");
    }
    S->flush();
  } catch (const XMLException&) { threw = true; }
  VX_ASSERT(!threw && !g_badwrite, "storing never fails and always flushes whole blocks");
  unsigned long sblocks = S->fBufCount;
  setup(L, XSerializeEngine::mode_Load, lbuf, pool, &in, 0);
  bool threw2 = false;
  try {
    L->fillBuffer();
    for (unsigned i = 0; i < BLK; i++) if (i < pre) { XMLByte v; *L >> v; VX_ASSERT(v == (XMLByte)(0x40 + i), "leading byte read back"); }
    for (int i = 0; i < K; i++) {
      switch (kind[i]) {
        case 0: { XMLByte v; *L >> v; VX_ASSERT(v == (XMLByte)val[i], "XMLByte read back equals the value written"); break; }
        case 1: { XMLCh v; *L >> v; VX_ASSERT(v == (XMLCh)val[i], "XMLCh read back equals the value written"); break; }
        case 2: { int v; *L >> v; VX_ASSERT(v == (int)val[i], "int read back equals the value written"); break; }
        case 3: { unsigned int v; *L >> v; VX_ASSERT(v == (unsigned int)val[i], "unsigned int read back equals the value written"); break; }
        case 4: { unsigned long v; *L >> v; VX_ASSERT(v == (unsigned long)val[i], "unsigned long read back equals the value written"); break; }
        default: { bool v; *L >> v; VX_ASSERT(v == (bool)(val[i] & 1), "bool read back equals the value written"); break; }
      }
      VX_ASSERT(L->fBufCur >= L->fBufStart && L->fBufCur <= L->fBufLoadMax, "load cursor stays inside the loaded block");
    }
  } catch (const XMLException&) { threw2 = true; }
  VX_ASSERT(!threw2, "loading what was stored never fails");
  VX_ASSERT(L->fBufCount == sblocks, "both sides use the same number of blocks");
  if (sblocks >= 2) VX_REACH("script crossed a block boundary");
  if (kind[0] == 0 && kind[1] == 4) VX_REACH("alignment padding after a byte");
  if (pre == 13 && kind[0] == 2) VX_REACH("aligned item that does not fit behind a misaligned cursor at the block end");
}

// C16-P2: raw byte runs (XSerializeEngine::write(const XMLByte*, len) / read(XMLByte*, len), the path every string and every array of the
// grammar serialisation takes): PRE single bytes, then a run of LEN symbolic bytes, then a marker byte and an unsigned int.  For EVERY
// PRE < block size and LEN <= RAWMAX (so every position of the run relative to the block boundaries, including runs that end exactly on
// a boundary and runs spanning whole blocks) the load side gets back the same run AND the items that follow it.
#ifndef RAWMAX
#define RAWMAX 36
#endif
extern "C" void harness_engine_raw(void) {
  VxMM mm;
  struct PoolLayout { void* vptr; MemoryManager* mgr; bool ign; };
  static PoolLayout poolr; void* pool = &poolr; poolr.mgr = &mm;
  static VxRaw<XSerializeEngine> se, le;
  alignas(8) static XMLByte sbuf[BLK], lbuf[BLK];
  OutS out; InS in;
  XSerializeEngine* S = &se.obj; XSerializeEngine* L = &le.obj;
  setup(S, XSerializeEngine::mode_Store, sbuf, pool, 0, &out);
  unsigned pre = nondet_u8(); VX_ASSUME(pre < BLK);
  XMLSize_t len = nondet_u64(); VX_ASSUME(len <= RAWMAX);
  static XMLByte data[RAWMAX], back[RAWMAX]; for (int i = 0; i < RAWMAX; i++) data[i] = nondet_u8();
  XMLByte marker = nondet_u8(); unsigned int tail = nondet_u32();
  bool threw = false;
  try {
    for (unsigned i = 0; i < BLK; i++) if (i < pre) *S << (XMLByte)(0x40 + i);
    S->write(data, len);
    VX_ASSERT(S->fBufCur >= S->fBufStart && S->fBufCur <= S->fBufEnd, "store cursor stays inside the block");
    *S << marker; *S << tail;
    S->flush();
  } catch (const XMLException&) { threw = true; }
  VX_ASSERT(!threw && !g_badwrite, "storing never fails and always flushes whole blocks");
  unsigned long sblocks = S->fBufCount;
  setup(L, XSerializeEngine::mode_Load, lbuf, pool, &in, 0);
  bool threw2 = false;
  try {
    L->fillBuffer();
    for (unsigned i = 0; i < BLK; i++) if (i < pre) { XMLByte v; *L >> v; VX_ASSERT(v == (XMLByte)(0x40 + i), "leading byte read back"); }
    L->read(back, len);
    VX_ASSERT(L->fBufCur >= L->fBufStart && L->fBufCur <= L->fBufLoadMax, "load cursor stays inside the loaded block");
    for (XMLSize_t i = 0; i < RAWMAX; i++) if (i < len) VX_ASSERT(back[i] == data[i], "byte run read back equals the run written");
    XMLByte m; *L >> m; VX_ASSERT(m == marker, "the item following a byte run is read back (cursor correct after the run)");
    unsigned int t; *L >> t; VX_ASSERT(t == tail, "the aligned item following a byte run is read back");
  } catch (const XMLException&) { threw2 = true; }
  VX_ASSERT(!threw2, "loading what was stored never fails");
  VX_ASSERT(L->fBufCount == sblocks, "both sides use the same number of blocks");
  if (len > 0 && (pre + len) % BLK == 0) VX_REACH("run ends exactly on a block boundary");
  if (len >= BLK + 2 && pre + len >= 2 * BLK + 1) VX_REACH("run spans a whole block");
  if (pre + len < BLK) VX_REACH("run inside the first block");
}
