// Environment boundary of C19/createreader.cpp: plain functions under the real symbols (asm labels); each records that it was reached.
#include "vx.h"
#include "vx_open.h"
#include <xercesc/internal/XMLReader.hpp>
#include <xercesc/framework/XMLBuffer.hpp>
#include "vx_close.h"
using namespace xercesc;
extern int vx_seq, vx_file_at, vx_url_at, vx_open_at; extern const void* vx_opened; extern const XMLCh* vx_file_base; extern const XMLCh* vx_file_rel; extern const XMLCh* vx_last_sysid;
extern const XMLCh* vx_seturl_base; extern bool vx_seturl_ok, vx_relative, vx_invalidchar, vx_open_null;
static VxRaw<XMLReader> g_reader;
extern "C" {
void vx_removeChar(const XMLCh* src, const XMLCh&, XMLBuffer& dst) asm("_ZN11xercesc_4_09XMLString10removeCharEPKDsRS1_RNS_9XMLBufferE");
void vx_removeChar(const XMLCh* src, const XMLCh&, XMLBuffer& dst) { dst.set(src); }                     // the system id contains no 0xFFFF marker here
void vx_url_ctor(void*, void*) asm("_ZN11xercesc_4_06XMLURLC1EPNS_13MemoryManagerE");  void vx_url_ctor(void*, void*) {}
void vx_url_dtor(void*) asm("_ZN11xercesc_4_06XMLURLD1Ev");  void vx_url_dtor(void*) {}
bool vx_setURL(void*, const XMLCh*, const XMLCh*, void*) asm("_ZN11xercesc_4_06XMLURL6setURLEPKDsS2_RS0_");  bool vx_setURL(void*, const XMLCh* base, const XMLCh*, void*) { vx_seturl_base = base; return vx_seturl_ok; }
bool vx_isRelative(const void*) asm("_ZNK11xercesc_4_06XMLURL10isRelativeEv");  bool vx_isRelative(const void*) { return vx_relative; }
bool vx_hasInvalidChar(const void*) asm("_ZNK11xercesc_4_06XMLURL14hasInvalidCharEv");  bool vx_hasInvalidChar(const void*) { return vx_invalidchar; }
void vx_normalizeURI(const XMLCh* s, XMLBuffer& out) asm("_ZN11xercesc_4_06XMLUri12normalizeURIEPKDsRNS_9XMLBufferE");  void vx_normalizeURI(const XMLCh* s, XMLBuffer& out) { out.set(s); }
void vx_file_ctor(void*, const XMLCh* base, const XMLCh* rel, void*) asm("_ZN11xercesc_4_020LocalFileInputSourceC1EPKDsS2_PNS_13MemoryManagerE");
void vx_file_ctor(void*, const XMLCh* base, const XMLCh* rel, void*) { vx_file_at = ++vx_seq; vx_file_base = base; vx_file_rel = rel; }
void vx_urlsrc_ctor(void*, const void*, void*) asm("_ZN11xercesc_4_014URLInputSourceC1ERKNS_6XMLURLEPNS_13MemoryManagerE");
void vx_urlsrc_ctor(void*, const void*, void*) { vx_url_at = ++vx_seq; }
struct Info { const XMLCh* systemId; const XMLCh* publicId; unsigned long line, col; };
void vx_lastinfo(const void*, Info& i) asm("_ZNK11xercesc_4_09ReaderMgr20getLastExtEntityInfoERNS0_17LastExtEntityInfoE");
void vx_lastinfo(const void*, Info& i) { i.systemId = vx_last_sysid; i.publicId = 0; i.line = 0; i.col = 0; }
XMLReader* vx_open(void*, const void* src, bool, int, int, int, bool, unsigned long) asm("_ZN11xercesc_4_09ReaderMgr12createReaderERKNS_11InputSourceEbNS_9XMLReader7RefFromENS4_5TypesENS4_7SourcesEbm");
XMLReader* vx_open(void*, const void* src, bool, int, int, int, bool, unsigned long) { vx_open_at = ++vx_seq; vx_opened = src; return vx_open_null ? 0 : &g_reader.obj; }
}
