// C19-P2: the general-entity reference gate of the scanner (real IGXMLScanner::scanEntityRef): expansion limit of the security manager, and
// what may be opened on behalf of an entity reference.  Every callee that touches the input or the entity table is cut to a stub with an
// arbitrary outcome (C19/entstubs.cpp), so EVERY combination of: character reference or not, name valid or not, entity declared or not,
// internal / external / unparsed / predefined, in attribute value or content, standalone, reader creation and push outcome, security
// manager present or not, ARBITRARY expansion counter and limit.  Checked on every path:
//   - a reader for an external entity is created only for a declared, parsed, external entity, exactly once, with the scanner's
//     disable-default-entity-resolution flag passed through; never for character references, undeclared or unparsed entities;
//   - with a security manager every entity pushed onto the reader stack is counted, and the expansion that takes the count ABOVE the limit
//     reports EntityExpansionLimitExceeded - neither one earlier nor one later; without a security manager nothing is counted or limited;
//   - unparsed entity references, external references in attribute values, recursive entities, undeclared entities are reported.
#include "vx.h"
#include "vx_open.h"
#include <xercesc/internal/IGXMLScanner.hpp>
#include <xercesc/internal/DGXMLScanner.hpp>
#include <xercesc/internal/XMLReader.hpp>
#include <xercesc/validators/DTD/DTDGrammar.hpp>
#include <xercesc/validators/DTD/DTDEntityDecl.hpp>
#include <xercesc/framework/XMLBuffer.hpp>
#include <xercesc/util/RuntimeException.hpp>
#include "vx_close.h"
#ifndef SCANNER
#define SCANNER IGXMLScanner      // -DSCANNER=DGXMLScanner: the DTD-only scanner has its own copy of scanEntityRef
#endif
#define VX_STUB_XMLEXCEPTION
#define VX_STUB_XMEMORY
#include "vx_stubs.hpp"
// recorders shared with the stubs
int vx_err_n; int vx_err_code[4]; int vx_verr_n;
int vx_addprefix_n; const XMLCh* vx_addprefix_prefix; unsigned vx_addprefix_uri;      // (unused here; defined for C06/nsstubs.cpp)
XMLBuffer* vx_the_buffer; int vx_bids, vx_releases;
bool vx_is_charref, vx_charref_ok, vx_semi, vx_validname, vx_found, vx_reader_ok, vx_push_ok, vx_textdecl;
int vx_create_ext, vx_create_int, vx_push_n; bool vx_create_disable; void* vx_decl;
static bool seen(int code) { for (int i = 0; i < 4; i++) if (i < vx_err_n && vx_err_code[i] == code) return true; return false; }
extern "C" void harness_entityref(void) {
  VxMMFixed<112> mm;
  static VxRaw<SCANNER> sr; SCANNER* sc = &sr.obj;
  static VxRaw<DTDEntityDecl> dr; DTDEntityDecl* decl = new (&dr.obj) DTDEntityDecl(&mm); vx_decl = decl;
  static long gram[8]; sc->fDTDGrammar = (DTDGrammar*)gram;                 // identity only: getEntityDecl is cut
  XMLBuffer buf(8, &mm); vx_the_buffer = &buf;
  static const XMLCh nm[] = { 'e', 0 }, sysid[] = { 's', 0 }, nota[] = { 'n', 0 }, valx[] = { 'v', 0 };
  // ---- arbitrary entity
  bool external = nondet_bool(), unparsed = nondet_bool(), special = nondet_bool(), inInt = nondet_bool();
  decl->fName = (XMLCh*)nm; decl->fSystemId = external ? (XMLCh*)sysid : 0; decl->fPublicId = 0; decl->fBaseURI = 0;
  decl->fNotationName = (external && unparsed) ? (XMLCh*)nota : 0; decl->fValue = (XMLCh*)valx; decl->fValueLen = 1;
  decl->fDeclaredInIntSubset = inInt; decl->fIsSpecialChar = !external && special; decl->fIsParameter = false; decl->fIsExternal = external;
  // ---- arbitrary scanner state and callee outcomes
  bool secmgr = nondet_bool(), standalone = nondet_bool(), noDTD = nondet_bool(), validate = nondet_bool(), disable = nondet_bool(), ns = nondet_bool(), inAttVal = nondet_bool();
  XMLSize_t count = nondet_u64(), limit = nondet_u64(); VX_ASSUME(count < (1ULL << 62));
  static long secobj[2];
  sc->fSecurityManager = secmgr ? (SecurityManager*)secobj : 0; sc->fEntityExpansionCount = count; sc->fEntityExpansionLimit = limit;
  sc->fStandalone = standalone; sc->fHasNoDTD = noDTD; sc->fValidate = validate; sc->fValidator = 0; sc->fDisableDefaultEntityResolution = disable;
  sc->fDoNamespaces = ns; sc->fDocHandler = 0; sc->fCalculateSrcOfs = false; sc->fLowWaterMark = 100; sc->fMemoryManager = &mm;
  vx_is_charref = nondet_bool(); vx_charref_ok = nondet_bool(); vx_semi = nondet_bool(); vx_validname = nondet_bool(); vx_found = nondet_bool();
  vx_reader_ok = nondet_bool(); vx_push_ok = nondet_bool(); vx_textdecl = nondet_bool();
  XMLCh c1 = 0, c2 = 0; bool escaped = false, threw = false; int res = -1;
  try { res = sc->SCANNER::scanEntityRef(inAttVal, c1, c2, escaped); } catch (const XMLException&) { threw = true; }
  bool declared = !vx_is_charref && vx_validname && vx_found;
  bool ext = declared && external, unp = ext && unparsed;
  // ---- what may be opened
  VX_ASSERT(vx_create_ext == ((ext && !unp) ? 1 : 0), "an external-entity reader is created exactly for a declared, parsed, external entity");
  if (vx_create_ext) VX_ASSERT(vx_create_disable == disable, "the disable-default-entity-resolution setting is passed to the reader factory unchanged");
  VX_ASSERT(vx_create_int == ((declared && !external && !special) ? 1 : 0), "an internal-entity reader is created exactly for a declared internal entity that is not predefined");
  bool pushedExt = ext && !unp && vx_reader_ok && vx_push_ok, pushedInt = declared && !external && !special;
  VX_ASSERT(threw == (ext && !unp && !vx_reader_ok), "an external entity that cannot be opened raises an exception");
  // ---- expansion limit
  bool counted = secmgr && (pushedExt || pushedInt);
  if (!counted) { VX_ASSERT(sc->fEntityExpansionCount == count && !seen(XMLErrs::EntityExpansionLimitExceeded), "nothing is counted or limited unless an entity is expanded under a security manager"); }
  else {
    bool over = count + 1 > limit;
    VX_ASSERT(seen(XMLErrs::EntityExpansionLimitExceeded) == over, "the expansion that takes the count above the limit - and no other - reports EntityExpansionLimitExceeded");
    if (!over) VX_ASSERT(sc->fEntityExpansionCount == count + 1, "every expansion is counted exactly once");
    if (over) VX_REACH("expansion limit exceeded"); else VX_REACH("expansion counted");
  }
  // ---- other reports and results
  if (unp) VX_ASSERT(seen(XMLErrs::NoUnparsedEntityRefs) && res == XMLScanner::EntityExp_Failed, "a reference to an unparsed entity is an error and expands nothing");
  if (ext && !unp && inAttVal) VX_ASSERT(seen(XMLErrs::NoExtRefsInAttValue), "an external entity reference in an attribute value is reported");
  if (ext && !unp && vx_reader_ok && !vx_push_ok) VX_ASSERT(seen(XMLErrs::RecursiveEntity) && res == XMLScanner::EntityExp_Failed, "a recursive external entity is reported and not expanded");
  if (pushedInt && !vx_push_ok) VX_ASSERT(seen(XMLErrs::RecursiveEntity), "a recursive internal entity is reported");
  if (!vx_is_charref && vx_validname && !vx_found) VX_ASSERT(res == XMLScanner::EntityExp_Failed && (seen(XMLErrs::EntityNotFound) == (standalone || noDTD)), "an undeclared entity is a well-formedness error exactly when there is no DTD or the document is standalone");
  if (declared && standalone && !inInt) VX_ASSERT(seen(XMLErrs::IllegalRefInStandalone), "standalone documents may only reference entities of the internal subset");
  if (declared && !external && special) { VX_ASSERT(res == XMLScanner::EntityExp_Returned && escaped && c1 == 'v', "a predefined entity is returned as an escaped character"); VX_REACH("predefined entity"); }
  if (pushedExt || pushedInt) VX_ASSERT(res == XMLScanner::EntityExp_Pushed, "an expanded entity is reported as pushed");
}
