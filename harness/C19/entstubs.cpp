// Cuts for C19/entityref.cpp: the reader manager, the entity table, character-reference / text-declaration scanning -> stubs with the
// outcomes chosen by the harness; error reporting -> recorders (scanner: C06/nsstubs.cpp).
#include "vx.h"
#include <xercesc/util/XercesDefs.hpp>
using namespace xercesc;
extern bool vx_is_charref, vx_charref_ok, vx_semi, vx_validname, vx_found, vx_reader_ok, vx_push_ok, vx_textdecl;
extern int vx_create_ext, vx_create_int, vx_push_n, vx_verr_n; extern bool vx_create_disable; extern void* vx_decl;
static long vx_dummy_reader[4];
extern "C" {
unsigned long vx_rnum(const void*) asm("_ZNK11xercesc_4_09ReaderMgr19getCurrentReaderNumEv"); unsigned long vx_rnum(const void*) { return 5; }
bool vx_skipped(void*, XMLCh c) asm("_ZN11xercesc_4_09ReaderMgr11skippedCharEDs"); bool vx_skipped(void*, XMLCh c) { return c == '#' ? vx_is_charref : vx_semi; }
bool vx_getname(void*, void*) asm("_ZN11xercesc_4_09ReaderMgr7getNameERNS_9XMLBufferE"); bool vx_getname(void*, void*) { return vx_validname; }
bool vx_getqname(void*, void*, int* colon) asm("_ZN11xercesc_4_09ReaderMgr8getQNameERNS_9XMLBufferEPi"); bool vx_getqname(void*, void*, int* colon) { *colon = -1; return vx_validname; }
void* vx_getdecl(void*, const XMLCh*) asm("_ZN11xercesc_4_010DTDGrammar13getEntityDeclEPKDs"); void* vx_getdecl(void*, const XMLCh*) { return vx_found ? vx_decl : 0; }
void* vx_createext(void*, const XMLCh*, const XMLCh*, const XMLCh*, bool, int, int, int, void** src, bool, unsigned long, bool disable)
  asm("_ZN11xercesc_4_09ReaderMgr12createReaderEPKDsS2_S2_bNS_9XMLReader7RefFromENS3_5TypesENS3_7SourcesERPNS_11InputSourceEbmb");
void* vx_createext(void*, const XMLCh*, const XMLCh*, const XMLCh*, bool, int, int, int, void** src, bool, unsigned long, bool disable) { vx_create_ext++; vx_create_disable = disable; *src = 0; return vx_reader_ok ? (void*)vx_dummy_reader : 0; }
void* vx_createint(void*, const XMLCh*, int, int, const XMLCh*, unsigned long, bool, bool, unsigned long) asm("_ZN11xercesc_4_09ReaderMgr18createIntEntReaderEPKDsNS_9XMLReader7RefFromENS3_5TypesES2_mbbm");
void* vx_createint(void*, const XMLCh*, int, int, const XMLCh*, unsigned long, bool, bool, unsigned long) { vx_create_int++; return (void*)vx_dummy_reader; }
bool vx_push(void*, void*, void*) asm("_ZN11xercesc_4_09ReaderMgr10pushReaderEPNS_9XMLReaderEPNS_13XMLEntityDeclE"); bool vx_push(void*, void*, void*) { vx_push_n++; return vx_push_ok; }
XMLCh vx_nextch(void*) asm("_ZN11xercesc_4_09ReaderMgr11getNextCharEv"); XMLCh vx_nextch(void*) { return 0; }
bool vx_charref(void*, XMLCh* a, XMLCh* b) asm("_ZN11xercesc_4_010XMLScanner11scanCharRefERDsS1_"); bool vx_charref(void*, XMLCh* a, XMLCh* b) { *a = 'c'; *b = 0; return vx_charref_ok; }
bool vx_checkdecl(void*, bool) asm("_ZN11xercesc_4_010XMLScanner12checkXMLDeclEb"); bool vx_checkdecl(void*, bool) { return vx_textdecl; }
void vx_scandecl(void*, int) asm("_ZN11xercesc_4_010XMLScanner11scanXMLDeclENS0_9DeclTypesE"); void vx_scandecl(void*, int) {}
void vx_vemit(void*, int, const void*, const void*, const void*, const void*) asm("_ZN11xercesc_4_012XMLValidator9emitErrorENS_8XMLValid5CodesEPKDsS4_S4_S4_");
void vx_vemit(void*, int, const void*, const void*, const void*, const void*) { vx_verr_n++; }
}
// the limit is formatted for the error message only
extern "C" void vx_sizeToText(unsigned long, XMLCh* out, unsigned long, unsigned, void*) asm("_ZN11xercesc_4_09XMLString10sizeToTextEmPDsmjPNS_13MemoryManagerE");
extern "C" void vx_sizeToText(unsigned long, XMLCh* out, unsigned long, unsigned, void*) { out[0] = 0; }
