// C19-P1: the single choke point through which every external entity / DTD / schema location is opened:
// the real ReaderMgr::createReader(sysId, pubId, ...) and createReader(baseURI, sysId, pubId, ...).
// Everything that touches the environment is cut (C19/envstubs.cpp) to a recorder with arbitrary outcomes: URL parsing, URI normalisation,
// the file / URL input-source constructors, the inner createReader(InputSource&) and the application's entity handler.
// For EVERY combination of handler presence/answers, URL outcomes and flags:
//  (i)   the handler's resolveEntity is consulted BEFORE any source is built, with the expanded system id and the base of the enclosing entity;
//  (ii)  a source supplied by the handler is the one opened and NO default file/URL source is constructed;
//  (iii) handler answers null (or absent) and default resolution disabled  =>  returns 0 and NO file/URL source constructor is reached;
//  (iv)  standard-URI-conformant mode: a malformed or relative URL throws MalformedURLException instead of falling back to a file;
//  (v)   otherwise exactly one default source is built: a file source for non-URLs, a URL source for absolute URLs.
#include "vx.h"
#include "vx_open.h"
#include <xercesc/internal/ReaderMgr.hpp>
#include <xercesc/framework/XMLEntityHandler.hpp>
#include <xercesc/util/XMLResourceIdentifier.hpp>
#include <xercesc/sax/InputSource.hpp>
#include <xercesc/util/XMLURL.hpp>
#include "vx_close.h"
#define VX_STUB_XMLEXCEPTION
#include "vx_stubs.hpp"
int vx_seq, vx_resolve_at, vx_file_at, vx_url_at, vx_open_at; const void* vx_opened; const XMLCh* vx_file_base; const XMLCh* vx_file_rel;
bool vx_seturl_ok, vx_relative, vx_invalidchar, vx_open_null;
static const XMLCh SYS[] = { 's', 0 }, BASE[] = { 'b', 0 }, LAST[] = { 'l', 0 }, NOBASE[] = { 0 }, PUB[] = { 'p', 0 }, EXPANDED[] = { 'e', 0 };
const XMLCh* vx_last_sysid = LAST;      // system id of the entity that contains the reference
const XMLCh* vx_seturl_base;
static bool h_expand, h_return_src; static const XMLCh* seen_sys; static const XMLCh* seen_base; static XMLCh seen_sys0, seen_base0; static const Locator* seen_loc;
struct Src : InputSource { Src(MemoryManager* m) : InputSource(m) {} BinInputStream* makeStream() const { return 0; } };
static Src* g_src;
struct Handler : XMLEntityHandler {
  void endInputSource(const InputSource&) {}
  bool expandSystemId(const XMLCh* const, XMLBuffer& toFill) { if (h_expand) { toFill.set(EXPANDED); return true; } return false; }
  void resetEntities() {}
  InputSource* resolveEntity(XMLResourceIdentifier* id) {
    vx_resolve_at = ++vx_seq; seen_sys = id->getSystemId(); seen_sys0 = seen_sys ? seen_sys[0] : 0; seen_base = id->getBaseURI(); seen_base0 = seen_base ? seen_base[0] : 0; seen_loc = id->getLocator();
    return h_return_src ? g_src : 0;
  }
  void startInputSource(const InputSource&) {}
};
extern "C" void harness_createreader(void) {
  VxMM mm;
  static VxRaw<ReaderMgr> mr; ReaderMgr* mgr = &mr.obj;
  Handler hd; Src src(&mm); g_src = &src;
  bool haveHandler = nondet_bool(); h_expand = nondet_bool(); h_return_src = nondet_bool();
  bool conformant = nondet_bool(), disableDefault = nondet_bool();
  vx_seturl_ok = nondet_bool(); vx_relative = nondet_bool(); vx_invalidchar = nondet_bool(); vx_open_null = nondet_bool();
  mgr->fEntityHandler = haveHandler ? &hd : 0; mgr->fStandardUriConformant = conformant; mgr->fMemoryManager = &mm; mgr->fNextReaderNum = 7; mgr->fXMLVersion = XMLReader::XMLV1_0;
  InputSource* filled = (InputSource*)&hd;   // garbage: must be overwritten
#ifdef WITH_BASE
  unsigned bk = nondet_u8() % 3; const XMLCh* baseArg = bk == 0 ? BASE : bk == 1 ? NOBASE : 0;    // explicit base, empty base, no base
  XMLCh wantBase = bk == 0 ? 'b' : 'l';     // an absent/empty base falls back to the entity containing the reference
  XMLCh wantSeenBase = bk == 0 ? 'b' : 0;
#else
  XMLCh wantBase = 'l'; XMLCh wantSeenBase = 'l';
#endif
  XMLReader* r = 0; bool threw = false, malformed = false;
  try {
#ifdef WITH_BASE
    r = mgr->createReader(baseArg, SYS, PUB, false, XMLReader::RefFrom_NonLiteral, XMLReader::Type_General, XMLReader::Source_External, filled, false, 100, disableDefault);
#else
    r = mgr->createReader(SYS, PUB, false, XMLReader::RefFrom_NonLiteral, XMLReader::Type_General, XMLReader::Source_External, filled, false, 100, disableDefault);
#endif
  } catch (const MalformedURLException&) { threw = true; malformed = true; }
    catch (const XMLException&) { threw = true; }
  bool resolved = haveHandler && h_return_src;
  bool isUrl = vx_seturl_ok && !vx_relative;
  if (haveHandler) {
    VX_ASSERT(vx_resolve_at == 1, "the application's resolver is consulted first, before any source is built");
    VX_ASSERT(seen_sys0 == (h_expand ? 'e' : 's'), "the resolver sees the system id as expanded by the handler (or unchanged)");
    VX_ASSERT(seen_base0 == wantSeenBase, "the resolver sees the base URI against which the reference must be resolved");
    VX_ASSERT(seen_loc == (const Locator*)mgr, "the resolver gets the reader manager as locator");
  } else VX_ASSERT(vx_resolve_at == 0, "no handler, no resolution call");
  if (resolved) {
    VX_ASSERT(vx_file_at == 0 && vx_url_at == 0, "a source supplied by the resolver replaces the default: no file/URL source is constructed");
    VX_ASSERT(!threw && vx_opened == (const void*)g_src && filled == g_src, "the source supplied by the resolver is the one opened and handed back");
    VX_REACH("resolver supplied the source");
  } else if (disableDefault) {
    VX_ASSERT(!threw && r == 0 && filled == 0, "default entity resolution disabled and nothing supplied: null reader, no source");
    VX_ASSERT(vx_file_at == 0 && vx_url_at == 0 && vx_open_at == 0, "default entity resolution disabled: no file or URL source is ever constructed or opened");
    VX_REACH("default resolution disabled");
  } else if (!isUrl) {
    if (conformant) { VX_ASSERT(malformed && vx_file_at == 0 && vx_url_at == 0 && vx_open_at == 0, "standard-URI-conformant mode: a malformed or relative URL is an error, never a file fallback"); VX_REACH("conformant mode rejects a non-URL"); }
    else { VX_ASSERT(!threw && vx_file_at != 0 && vx_url_at == 0, "a system id that is not an absolute URL is opened as a local file");
           VX_ASSERT(vx_file_base != 0 && vx_file_base[0] == wantBase, "the file source is resolved against the given base, or else against the entity containing the reference"); }
  } else {
    if (conformant && vx_invalidchar) VX_ASSERT(malformed && vx_url_at == 0 && vx_file_at == 0, "standard-URI-conformant mode rejects URLs with invalid characters");
    else { VX_ASSERT(!threw && vx_url_at != 0 && vx_file_at == 0, "an absolute URL is opened through a URL source"); VX_REACH("URL source"); }
  }
  if (!resolved && !disableDefault) VX_ASSERT(vx_seturl_base != 0 && vx_seturl_base[0] == wantBase, "the URL is resolved against the given base, or else against the entity containing the reference");
  if (!threw && r) { VX_ASSERT(r->fReaderNum == 7 && mgr->fNextReaderNum == 8, "the new reader gets the next reader number"); }
  if (!threw && vx_open_at && vx_open_null) VX_ASSERT(r == 0, "a source that cannot be opened yields a null reader");
}
