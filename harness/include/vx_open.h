// include between vx.h and the xerces headers: exposes private state so harnesses can build objects
// field by field and read fields in assertions without depending on layout
#define private public
#define protected public
