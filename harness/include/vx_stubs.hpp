// Stub boundary shared by harnesses (each stub is part of the claim and is listed in evidence as a cut).
// Select with -D / #define before including:
//   VX_STUB_XMLEXCEPTION  XMLException ctor/dtor/loadExceptText: message loading cut, code recorded
//   VX_STUB_XMLTRANSCODER XMLTranscoder base ctor/dtor (TransService.cpp not linked)
//   VX_STUB_XMEMORY       XMemory::operator new/delete -> malloc/free (XMemory.cpp not linked)
#pragma once
#include <xercesc/framework/MemoryManager.hpp>
#include <xercesc/util/XMLException.hpp>
#include <xercesc/util/TransService.hpp>
using namespace xercesc;

struct VxMM : MemoryManager {
  void* allocate(XMLSize_t n) { void* p = malloc(n); VX_ASSUME(p != 0); return p; }
  void deallocate(void* p) { free(p); }
  MemoryManager* getExceptionMemoryManager() { return this; }
};

// Fixed-block manager: every request is served by a block of exactly CAP bytes (requests larger than CAP fail the check).
// Used where the code under test computes allocation sizes that become symbolic after path merging (heap objects of symbolic
// size make the propositional encoding explode).  Consequence, stated in evidence: accesses are bounds-checked against CAP,
// not against the requested size.
template <unsigned CAP> struct VxMMFixed : MemoryManager {
  unsigned long live;
  VxMMFixed() : live(0) {}
  void* allocate(XMLSize_t n) { VX_ASSERT(n <= CAP, "allocation request within the modelled block size"); VX_ASSUME(n <= CAP); void* p = malloc(CAP); VX_ASSUME(p != 0); live++; return p; }
  void deallocate(void* p) { if (p) live--; free(p); }
  MemoryManager* getExceptionMemoryManager() { return this; }
};

// Size-class manager: a request is served by a block of the next size class (16,32,...,4096 bytes), so every heap object has a
// concrete size even when the requested size is symbolic after path merging.  Accesses are bounds-checked against the class size.
struct VxMMClass : MemoryManager {
  unsigned long live;
  VxMMClass() : live(0) {}
  void* allocate(XMLSize_t n) {
    void* p;
    if (n <= 16) p = malloc(16); else if (n <= 32) p = malloc(32); else if (n <= 64) p = malloc(64); else if (n <= 128) p = malloc(128);
    else if (n <= 256) p = malloc(256); else if (n <= 512) p = malloc(512); else if (n <= 1024) p = malloc(1024);
    else { VX_ASSERT(n <= 4096, "allocation request within the largest modelled size class"); VX_ASSUME(n <= 4096); p = malloc(4096); }
    VX_ASSUME(p != 0); live++; return p;
  }
  void deallocate(void* p) { if (p) live--; free(p); }
  MemoryManager* getExceptionMemoryManager() { return this; }
};

#ifdef VX_STUB_XMLEXCEPTION
static int vx_last_exc_code = -1; static int vx_exc_count = 0;
XMLException::XMLException(const char* const, const XMLFileLoc, MemoryManager* const m)
  : fCode(XMLExcepts::NoError), fSrcFile(0), fSrcLine(0), fMsg(0), fMemoryManager(m) {}
XMLException::XMLException(const XMLException& o)
  : XMemory(o), fCode(o.fCode), fSrcFile(0), fSrcLine(0), fMsg(0), fMemoryManager(o.fMemoryManager) {}
XMLException::XMLException() : fCode(XMLExcepts::NoError), fSrcFile(0), fSrcLine(0), fMsg(0), fMemoryManager(0) {}
XMLException::~XMLException() {}
void XMLException::loadExceptText(const XMLExcepts::Codes c) { fCode = c; vx_last_exc_code = c; vx_exc_count++; }
void XMLException::loadExceptText(const XMLExcepts::Codes c, const XMLCh* const, const XMLCh* const, const XMLCh* const, const XMLCh* const)
  { fCode = c; vx_last_exc_code = c; vx_exc_count++; }
void XMLException::loadExceptText(const XMLExcepts::Codes c, const char* const, const char* const, const char* const, const char* const)
  { fCode = c; vx_last_exc_code = c; vx_exc_count++; }
#endif

#ifdef VX_STUB_XMLTRANSCODER
XMLTranscoder::XMLTranscoder(const XMLCh* const, const XMLSize_t blockSize, MemoryManager* const m)
  : fBlockSize(blockSize), fEncodingName(0), fMemoryManager(m) {}
XMLTranscoder::~XMLTranscoder() {}
#endif

#ifdef VX_STUB_XMEMORY
void* XMemory::operator new(size_t n) { void* p = malloc(n); VX_ASSUME(p != 0); return p; }
void* XMemory::operator new(size_t n, MemoryManager*) { void* p = malloc(n); VX_ASSUME(p != 0); return p; }
void* XMemory::operator new(size_t, void* ptr) { return ptr; }
void XMemory::operator delete(void* p) { free(p); }
void XMemory::operator delete(void* p, MemoryManager*) { free(p); }
void XMemory::operator delete(void*, void*) {}
#endif

#ifdef VX_STUB_NUMTOTEXT
// formatting of numbers for exception/diagnostic texts is not the subject: empty bodies (cut XMLString::binToText / sizeToText, all overloads)
#include <xercesc/util/XMLString.hpp>
void XMLString::binToText(const unsigned int, XMLCh* const toFill, const XMLSize_t, const unsigned int, MemoryManager* const) { toFill[0] = '0'; toFill[1] = 0; }
void XMLString::binToText(const unsigned long, XMLCh* const toFill, const XMLSize_t, const unsigned int, MemoryManager* const) { toFill[0] = '0'; toFill[1] = 0; }
void XMLString::binToText(const int, XMLCh* const toFill, const XMLSize_t, const unsigned int, MemoryManager* const) { toFill[0] = '0'; toFill[1] = 0; }
void XMLString::binToText(const long, XMLCh* const toFill, const XMLSize_t, const unsigned int, MemoryManager* const) { toFill[0] = '0'; toFill[1] = 0; }
void XMLString::sizeToText(const XMLSize_t, XMLCh* const toFill, const XMLSize_t, const unsigned int, MemoryManager* const) { toFill[0] = '0'; toFill[1] = 0; }
#endif
