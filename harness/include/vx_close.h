#undef private
#undef protected
