// Common harness vocabulary (DESIGN.md 1.1).  Harnesses are C++ compiled by clang against the real
// headers; this header must be included FIRST (it pulls in the std headers before the
// private->public switch that vx_open.h performs).
#pragma once
#include <cstddef>
#include <cstdint>
#include <cstring>
#include <cstdlib>
#include <new>
extern "C" {
  unsigned char  nondet_u8(void);
  unsigned short nondet_u16(void);
  unsigned int   nondet_u32(void);
  unsigned long  nondet_u64(void);
  void __CPROVER_assume(int);
  void __CPROVER_assert(int, const char*);
}
#define VX_ASSUME(c)     __CPROVER_assume(!!(c))
// nomerge: keep one call per assertion so that every description stays a literal in the IR
#define VX_ASSERT(c, d)  do { [[clang::nomerge]] __CPROVER_assert(!!(c), d); } while (0)
// reachability witness: must come back FAILED, otherwise the harness is vacuous
#define VX_REACH(d)      do { [[clang::nomerge]] __CPROVER_assert(0, "WITNESS: " d); } while (0)
// input class of a listed known finding: assumed away in the "excl" variant so that any OTHER violation still fails
#ifdef VX_EXCLUDE_KNOWN
#define VX_KNOWN(cond)   __CPROVER_assume(!(cond))
#else
#define VX_KNOWN(cond)   ((void)0)
#endif
static inline bool nondet_bool() { return nondet_u8() & 1; }

// Storage for an object that is initialised field by field instead of by its constructor.  The union gives the storage the object's
// REAL type in the IR (typed field accesses, values constant-propagate in the solver); a plain char array would turn every field
// access into byte-level array operations.
template <class T> union VxRaw { T obj; char raw[sizeof(T)]; VxRaw() {} ~VxRaw() {} };
