// C13-P2: character-data offset arithmetic of the DOM (real DOMCharacterDataImpl substringData / insertData / deleteData / replaceData /
// appendData reached through a REAL DOMTextImpl object - real constructor, vtables, dynamic_cast in DOMCasts.hpp, DOMNodeImpl flag logic).
// For EVERY text content of <= N units, every offset and count (full 64-bit range) and every inserted string of <= 2 units:
// the result equals the DOM Core string operation, INDEX_SIZE_ERR is raised iff offset > length (data unchanged then), counts beyond the end
// are clamped, a read-only node raises NO_MODIFICATION_ALLOWED_ERR and is unchanged, and no access leaves any buffer (the library's
// 4096-unit stack temporaries included).
#include "vx.h"
#include "vx_open.h"
#include <xercesc/dom/impl/DOMTextImpl.hpp>
#include <xercesc/dom/impl/DOMDocumentImpl.hpp>
#include <xercesc/dom/impl/DOMStringPool.hpp>
#include <xercesc/dom/DOMException.hpp>
#include "vx_close.h"
#define VX_STUB_XMLEXCEPTION
#define VX_STUB_XMEMORY
#include "vx_stubs.hpp"
#ifndef N
#define N 3
#endif
#define CAP 16
XMLCh vx_pooled[CAP + 1];
// the document object is raw storage (its class is not in the closure): give it a vtable that serves the one virtual the code under test
// calls on it, getRanges(); the slot is taken from the pointer-to-member (Itanium ABI: 1 + byte offset into the vtable)
extern "C" void* vx_getRanges(void*) { return 0; }      // no Range objects registered on the document
// tells the translator that virtual calls through the slot of DOMDocumentImpl::getRanges may land in vx_getRanges (see ir2c vtable_slots)
typedef Ranges* (DOMDocumentImpl::*VxGR)() const;
extern "C" { extern const VxGR vx_vslot_vx_getRanges; __attribute__((used)) const VxGR vx_vslot_vx_getRanges = &DOMDocumentImpl::getRanges; }
static void* vx_docvt[200];
extern "C" void harness_chardata(void) {
  VxMM mm; XMLPlatformUtils::fgMemoryManager = &mm;
  static VxRaw<DOMDocumentImpl> dr; DOMDocumentImpl* doc = &dr.obj; doc->fRanges = 0; doc->fMemoryManager = &mm;
  { typedef Ranges* (DOMDocumentImpl::*GR)() const; GR pmf = &DOMDocumentImpl::getRanges; unsigned long off; memcpy(&off, &pmf, sizeof off);
    vx_docvt[2 + (off - 1) / 8] = (void*)&vx_getRanges; *(void***)doc = &vx_docvt[2]; }
  static VxRaw<DOMBuffer> br; DOMBuffer* buf = &br.obj; static XMLCh store[CAP + 1];
  static VxRaw<DOMTextImpl> tr;
  static const XMLCh none[] = { 0 };
  DOMTextImpl* t = new (&tr.obj) DOMTextImpl((DOMDocument*)doc, none);       // real constructor (character-data part cut: no arena)
  XMLCh init[N + 1]; XMLSize_t len = nondet_u64(); VX_ASSUME(len <= N);
  for (int i = 0; i < N; i++) { init[i] = nondet_u16(); VX_ASSUME(init[i] != 0); store[i] = init[i]; } store[len] = 0; init[len] = 0;
  buf->fBuffer = store; buf->fIndex = len; buf->fCapacity = CAP; buf->fDoc = doc;
  t->fCharacterData.fDataBuf = buf; t->fCharacterData.fDoc = doc;
  bool ro = nondet_bool(); t->fNode.isReadOnly(ro);
  XMLSize_t off = nondet_u64(), cnt = nondet_u64();
  XMLCh ins[3]; ins[0] = nondet_u16(); ins[1] = nondet_u16(); ins[2] = 0; XMLSize_t il = ins[0] ? (ins[1] ? 2 : 1) : 0;
#ifdef OP
  unsigned op = OP;
#else
  unsigned op = nondet_u8() % 4;
#endif
  int code = -1; const XMLCh* sub = 0;
  try {
    if (op == 0) sub = t->substringData(off, cnt);
    else if (op == 1) t->insertData(off, ins);
    else if (op == 2) t->deleteData(off, cnt);
    else t->replaceData(off, cnt, ins);
  } catch (const DOMException& e) { code = e.code; }
  // reference
  XMLSize_t c2 = (off <= len) ? ((cnt > len - off) ? len - off : cnt) : 0;   // clamped count
  XMLCh ref[N + 3]; XMLSize_t rl = 0; bool changed = false;
  if (op == 0) { for (XMLSize_t i = 0; i < N; i++) if (i < c2) ref[rl++] = init[off + i]; }
  else {
    for (XMLSize_t i = 0; i < N; i++) if (i < len && off <= len) {
      if (i == off && (op == 1 || op == 3)) for (XMLSize_t k = 0; k < 2; k++) if (k < il) ref[rl++] = ins[k];
      if ((op == 2 || op == 3) && i >= off && i < off + c2) continue;
      ref[rl++] = init[i];
    }
    if (off == len && (op == 1 || op == 3)) for (XMLSize_t k = 0; k < 2; k++) if (k < il) ref[rl++] = ins[k];
    changed = true;
  }
  bool wantRO = ro && op != 0;
  if (wantRO) VX_ASSERT(code == DOMException::NO_MODIFICATION_ALLOWED_ERR, "a read-only node refuses modification with NO_MODIFICATION_ALLOWED_ERR");
  else if (off > len) VX_ASSERT(code == DOMException::INDEX_SIZE_ERR, "offset beyond the length raises INDEX_SIZE_ERR");
  else VX_ASSERT(code == -1, "no exception for an offset within the data");
  if (code != -1) { VX_ASSERT(buf->fIndex == len, "a refused operation leaves the length unchanged"); for (XMLSize_t i = 0; i < N; i++) if (i < len) VX_ASSERT(store[i] == init[i], "a refused operation leaves the data unchanged"); VX_REACH("DOMException raised"); }
  else if (op == 0) { for (XMLSize_t i = 0; i <= N; i++) if (i <= rl) VX_ASSERT(sub[i] == (i < rl ? ref[i] : 0), "substringData returns exactly the units offset..offset+count clamped to the end");
                      if (cnt > 5000) VX_REACH("count far beyond the end clamped"); }
  else { VX_ASSERT(buf->fIndex == rl, "length after the edit equals the DOM string operation");
         for (XMLSize_t i = 0; i < N + 2; i++) if (i < rl && buf->fIndex == rl) VX_ASSERT(buf->fBuffer[i] == ref[i], "data after insert/delete/replace equals the DOM string operation");
         if (rl > len || rl < len) VX_REACH("length changed by the edit"); }
}
