// Cuts for C13/treelinks.cpp: the parts of the DOMElementImpl constructor that need a live document (default attributes from the doctype,
// attribute maps allocated in the document arena).  Attributes are not touched by the tree-link operations.
#include "vx.h"
#include <xercesc/util/XercesDefs.hpp>
using namespace xercesc;
extern "C" {
void vx_setupDefAttrs(void*) asm("_ZN11xercesc_4_014DOMElementImpl22setupDefaultAttributesEv"); void vx_setupDefAttrs(void*) {}
static long vx_arena[8][16]; static int vx_arena_n;
void* vx_docnew(unsigned long amt, void*) asm("_ZnwmPN11xercesc_4_015DOMDocumentImplE");
void* vx_docnew(unsigned long amt, void*) { VX_ASSERT(amt <= sizeof vx_arena[0] && vx_arena_n < 8, "attribute-map storage within the harness arena"); return vx_arena[vx_arena_n++]; }
void vx_attrmap_ctor(void*, void*) asm("_ZN11xercesc_4_014DOMAttrMapImplC1EPNS_7DOMNodeE"); void vx_attrmap_ctor(void*, void*) {}
void vx_attrmap_ctor2(void*, void*, const void*) asm("_ZN11xercesc_4_014DOMAttrMapImplC1EPNS_7DOMNodeEPKS0_"); void vx_attrmap_ctor2(void*, void*, const void*) {}
}
// user-data handlers (clone/import/rename/release notifications) are not part of the tree-link operations: cutting the notifier keeps its
// hash-table enumerator class - and with it one more candidate at every virtual call of that slot shape - out of the closure
extern "C" {
void vx_calludh(const void*, int, const void*, void*) asm("_ZNK11xercesc_4_011DOMNodeImpl20callUserDataHandlersENS_18DOMUserDataHandler16DOMOperationTypeEPKNS_7DOMNodeEPS3_");
void vx_calludh(const void*, int, const void*, void*) {}
}
// DOMDocumentImpl::getMemoryManager() (only used to build exception objects; the whole DOMDocumentImpl TU except isKidOK is cut)
extern "C" void* vx_docmm(const void*) asm("_ZNK11xercesc_4_015DOMDocumentImpl16getMemoryManagerEv");
extern "C" void* vx_docmm(const void*) { return 0; }
