// Cuts for C13/chardata.cpp: document arena / string pool / buffer growth / message loading (asm labels under the real symbols).
#include "vx.h"
#include "vx_open.h"
#include <xercesc/util/XMLString.hpp>
#include <xercesc/dom/DOMException.hpp>
#include "vx_close.h"
using namespace xercesc;
extern "C" {
// DOMCharacterDataImpl constructor: the data buffer is supplied by the harness instead of the document arena
void vx_cd_ctor(void* self, void*, const XMLCh*) asm("_ZN11xercesc_4_020DOMCharacterDataImplC1EPNS_11DOMDocumentEPKDs");
void vx_cd_ctor(void* self, void*, const XMLCh*) {}
void vx_cd_dtor(void*) asm("_ZN11xercesc_4_020DOMCharacterDataImplD1Ev"); void vx_cd_dtor(void*) {}
// buffer growth is not reachable within the bound (capacity 16 for <= 5 units): reaching it fails the check
void vx_expand(void*, unsigned long, bool) asm("_ZN11xercesc_4_09DOMBuffer14expandCapacityEmb");
void vx_expand(void*, unsigned long, bool) { VX_ASSERT(0, "DOMBuffer::expandCapacity is not reachable within the bound"); VX_ASSUME(0); }
// DOMException(code, msgCode, mgr): message loading cut, code recorded
void vx_domexc(DOMException* e, short code, short, void*) asm("_ZN11xercesc_4_012DOMExceptionC1EssPNS_13MemoryManagerE");
void vx_domexc(DOMException* e, short code, short, void*) { e->code = code; e->msg = 0; e->fMemoryManager = 0; e->fMsgOwned = false; }
// DOMDocumentImpl::getPooledString (inline): the document's string pool is cut to a copy into a static buffer of the harness
extern XMLCh vx_pooled[];
const XMLCh* vx_pool(void*, const XMLCh* in) asm("_ZN11xercesc_4_015DOMDocumentImpl15getPooledStringEPKDs");
const XMLCh* vx_pool(void*, const XMLCh* in) { if (!in) return 0; int i = 0; for (; i < 16 && in[i]; i++) vx_pooled[i] = in[i]; vx_pooled[i] = 0; return vx_pooled; }
void vx_domexc_d(DOMException*) asm("_ZN11xercesc_4_012DOMExceptionD1Ev"); void vx_domexc_d(DOMException*) {}
}
