// C13-P1: the tree-link operations of the DOM (real DOMParentNode::insertBefore / removeChild / replaceChild / appendChild reached through
// REAL DOMElementImpl, DOMTextImpl and DOMDocumentFragmentImpl objects - real constructors, vtables, cross-casts of DOMCasts.hpp, flag logic
// of DOMNodeImpl, hierarchy table of DOMDocumentImpl::isKidOK).  One operation from an ARBITRARY well-formed forest over four nodes
// (two elements E1, E2, a text node T, a document fragment F: every parent assignment without cycles, every sibling order), with arbitrary
// operands - including the illegal ones (a node into itself or into its descendant, a reference child that is not a child, a text node as
// parent).  Afterwards the real tree, read back through getFirstChild/getNextSibling/getPreviousSibling/getLastChild/getParentNode, equals
// the reference model that executed the DOM Core definition of the operation; illegal operations raise the DOMException the specification
// names and leave the tree unchanged.  Equality with the model implies well-formedness (one parent, consistent sibling links, no cycles).
#include "vx.h"
#include "vx_open.h"
#include <xercesc/dom/impl/DOMElementImpl.hpp>
#include <xercesc/dom/impl/DOMTextImpl.hpp>
#include <xercesc/dom/impl/DOMDocumentFragmentImpl.hpp>
#include <xercesc/dom/impl/DOMDocumentImpl.hpp>
#include <xercesc/dom/impl/DOMStringPool.hpp>
#include <xercesc/dom/DOMException.hpp>
#include "vx_close.h"
#define VX_STUB_XMLEXCEPTION
#define VX_STUB_XMEMORY
#include "vx_stubs.hpp"
XMLCh vx_pooled[17];
// the document object is raw storage; the virtuals the code under test calls on it are served by these (see ir2c vtable_slots: vx_vslot_*)
static int vx_changes;
extern "C" void* vx_getRanges(void*) { return 0; }            // no live Range / NodeIterator registered (that is C14)
extern "C" void* vx_getNodeIterators(void*) { return 0; }
extern "C" void vx_changed(void*) { vx_changes++; }
typedef Ranges* (DOMDocumentImpl::*VxGR)() const; typedef NodeIterators* (DOMDocumentImpl::*VxGI)() const; typedef void (DOMDocumentImpl::*VxCH)();
extern "C" { extern const VxGR vx_vslot_vx_getRanges; __attribute__((used)) const VxGR vx_vslot_vx_getRanges = &DOMDocumentImpl::getRanges;
             extern const VxGI vx_vslot_vx_getNodeIterators; __attribute__((used)) const VxGI vx_vslot_vx_getNodeIterators = &DOMDocumentImpl::getNodeIterators;
             extern const VxCH vx_vslot_vx_changed; __attribute__((used)) const VxCH vx_vslot_vx_changed = &DOMDocumentImpl::changed; }
static void* vx_docvt[220];
template <class PMF> static void vslot(PMF pmf, void* fn) { unsigned long off; memcpy(&off, &pmf, sizeof off); vx_docvt[2 + (off - 1) / 8] = fn; }
#define NN 4
static DOMNode* nd[NN];
static int par[NN]; static int lst[NN][NN]; static int cnt[NN];          // the reference model: parent (-1 none), ordered child lists
static int posOf(int p, int c) { for (int k = 0; k < NN; k++) if (k < cnt[p] && lst[p][k] == c) return k; return -1; }
static void mremove(int c) { int p = par[c]; if (p < 0) return; int k = posOf(p, c); for (int j = 0; j < NN - 1; j++) if (j >= k && j + 1 < cnt[p]) lst[p][j] = lst[p][j + 1]; cnt[p]--; par[c] = -1; }
static void minsert(int p, int c, int at) { for (int j = NN - 1; j > 0; j--) if (j > at && j <= cnt[p]) lst[p][j] = lst[p][j - 1]; lst[p][at] = c; cnt[p]++; par[c] = p; }
static bool isAncOrSelf(int a, int n) { int x = n; for (int s = 0; s < NN; s++) { if (x < 0) return false; if (x == a) return true; x = par[x]; } return false; }
#define LINK(obj, i) do { int p_ = par[i]; bool ow_ = p_ >= 0; int k_ = ow_ ? posOf(p_, i) : 0; \
    (obj)->fNode.fOwnerNode = ow_ ? nd[p_] : (DOMNode*)doc; (obj)->fNode.isOwned(ow_); (obj)->fNode.isFirstChild(ow_ && k_ == 0); \
    (obj)->fChild.previousSibling = ow_ ? (k_ == 0 ? nd[lst[p_][cnt[p_] - 1]] : nd[lst[p_][k_ - 1]]) : 0; \
    (obj)->fChild.nextSibling = (ow_ && k_ + 1 < cnt[p_]) ? nd[lst[p_][k_ + 1]] : 0; } while (0)
#define CHECK(obj, i) do { int p_ = par[i]; bool ow_ = p_ >= 0; int k_ = ow_ ? posOf(p_, i) : 0; \
    VX_ASSERT((obj)->fNode.fOwnerNode == (ow_ ? nd[p_] : (DOMNode*)doc) && (obj)->fNode.isOwned() == ow_, "owner link and owned flag equal the reference DOM (at most one parent)"); \
    VX_ASSERT((obj)->fNode.isFirstChild() == (ow_ && k_ == 0), "first-child flag set exactly on the first child of a list"); \
    VX_ASSERT((obj)->fChild.nextSibling == ((ow_ && k_ + 1 < cnt[p_]) ? nd[lst[p_][k_ + 1]] : 0), "nextSibling equals the reference DOM"); \
    VX_ASSERT((obj)->fChild.previousSibling == (ow_ ? (k_ == 0 ? nd[lst[p_][cnt[p_] - 1]] : nd[lst[p_][k_ - 1]]) : 0), "previousSibling equals the reference DOM (first child -> last child)"); } while (0)
extern "C" void harness_treelinks(void) {
  VxMM mm; XMLPlatformUtils::fgMemoryManager = &mm;
  static VxRaw<DOMDocumentImpl> dr; DOMDocumentImpl* doc = &dr.obj; doc->fRanges = 0; doc->fNodeIterators = 0; doc->fMemoryManager = &mm;
  vslot(&DOMDocumentImpl::getRanges, (void*)&vx_getRanges); vslot(&DOMDocumentImpl::getNodeIterators, (void*)&vx_getNodeIterators); vslot(&DOMDocumentImpl::changed, (void*)&vx_changed);
  *(void***)doc = &vx_docvt[2];
  static const XMLCh none[] = { 0 }, en[] = { 'e', 0 };
  static VxRaw<DOMElementImpl> r0, r1; static VxRaw<DOMTextImpl> r2; static VxRaw<DOMDocumentFragmentImpl> r3;
  DOMElementImpl* E1 = new (&r0.obj) DOMElementImpl((DOMDocument*)doc, en);
  DOMElementImpl* E2 = new (&r1.obj) DOMElementImpl((DOMDocument*)doc, en);
  DOMTextImpl* T = new (&r2.obj) DOMTextImpl((DOMDocument*)doc, none);
  DOMDocumentFragmentImpl* F = new (&r3.obj) DOMDocumentFragmentImpl((DOMDocument*)doc);
  nd[0] = E1; nd[1] = E2; nd[2] = T; nd[3] = F;
  // ---- arbitrary well-formed forest: parents without cycles (a text node has no children, a fragment is never a child), any sibling order
  int pr[NN]; unsigned rk[NN];
  for (int i = 0; i < NN; i++) { pr[i] = (int)(nondet_u8() % 5) - 1; rk[i] = nondet_u8() % 4; }
  VX_ASSUME(pr[3] == -1 && pr[0] != 0 && pr[1] != 1 && pr[0] != 2 && pr[1] != 2 && pr[2] != 2 && !(pr[0] == 1 && pr[1] == 0));
  VX_ASSUME(rk[0] != rk[1] && rk[0] != rk[2] && rk[1] != rk[2]);
  for (int p = 0; p < NN; p++) cnt[p] = 0;
  for (int i = 0; i < NN; i++) par[i] = -1;
  for (unsigned r = 0; r < 4; r++) for (int i = 0; i < 3; i++) if (rk[i] == r && pr[i] >= 0) { lst[pr[i]][cnt[pr[i]]] = i; cnt[pr[i]]++; par[i] = pr[i]; }
  LINK(E1, 0); LINK(E2, 1); LINK(T, 2);
  E1->fParent.fFirstChild = cnt[0] ? nd[lst[0][0]] : 0; E2->fParent.fFirstChild = cnt[1] ? nd[lst[1][0]] : 0; F->fParent.fFirstChild = cnt[3] ? nd[lst[3][0]] : 0;
  // ---- one arbitrary operation
#ifdef OP
  unsigned op = OP;
#else
  unsigned op = nondet_u8() % 3;
#endif
#ifdef P
  int p = P;                                                                         // parent operand fixed per harness (E2 mirrors E1)
#else
  int p = nondet_u8() % 4;
#endif
#ifdef CFIX
  int c = CFIX, r = (int)(nondet_u8() % 5) - 1;
#else
  int c = nondet_u8() % 4, r = (int)(nondet_u8() % 5) - 1;
#endif                           // new/old child, reference child (or none)
#ifdef SMALL
  // reduced operand space: only E1 and T take part (E2 and F exist but stay unlinked and are never operands)
  VX_ASSUME(pr[0] == -1 && pr[1] == -1 && (pr[2] == -1 || pr[2] == 0) && (c == 0 || c == 2) && (r == -1 || r == 0 || r == 2));
#endif
  int code = -1; DOMNode* ret = 0;
#ifndef NOOP
  try {
    if (op == 0) ret = nd[p]->insertBefore(nd[c], r < 0 ? 0 : nd[r]);
    else if (op == 1) ret = nd[p]->removeChild(nd[c]);
    else { VX_ASSUME(r >= 0 && r != c);         // replaceChild(new, old) with new == old is implementation dependent in DOM Core: not judged
           ret = nd[p]->replaceChild(nd[c], nd[r]); }
  } catch (const DOMException& e) { code = e.code; }
#endif
  // ---- the DOM Core definition on the model
  bool hier = false, notfound = false;
  if (op == 0 || op == 2) {
    hier = p == 2;                                 // a text node takes no children
    if (isAncOrSelf(c, p)) hier = true;                                         // the node itself or one of its ancestors
    if (op == 0) notfound = r >= 0 && par[r] != p; else notfound = par[r] != p;
  } else notfound = par[c] != p;
  if (hier || notfound) {
    VX_ASSERT(code != -1, "an operation DOM Core forbids raises a DOMException (hierarchy violation incl. a node into itself, reference child that is not a child)");
    if (code != -1) VX_ASSERT((hier && code == DOMException::HIERARCHY_REQUEST_ERR) || (notfound && code == DOMException::NOT_FOUND_ERR), "the exception code is the one DOM Core names");
    VX_REACH("operation refused");
  } else {
    VX_ASSERT(code == -1, "a legal operation raises no exception");
    if (op == 1) { mremove(c); }
    else if (op == 0 && r == c) { }                       // before itself: nothing to do
    else {
      if (c == 3) {                                       // a fragment: its children move, in order
        int n = cnt[3]; int kids[NN]; for (int k = 0; k < NN; k++) kids[k] = k < n ? lst[3][k] : -1;
        for (int k = 0; k < NN; k++) if (k < n) { mremove(kids[k]); int at = r < 0 ? cnt[p] : posOf(p, r); minsert(p, kids[k], at); }
      } else { mremove(c); int at = r < 0 ? cnt[p] : posOf(p, r); minsert(p, c, at); }
      if (op == 2) mremove(r);
    }
    if (op == 0 && c != 3 && par[c] == p) VX_REACH("child inserted");
    if (op == 1) VX_REACH("child removed");
  }
  // ---- the real tree equals the model: every node's links and flags are the canonical encoding of the reference tree (owner = parent or
  // document, owned / first-child flags, nextSibling, previousSibling with the first child's pointing at the last child, parent's first
  // child) - the representation every DOM getter reads.  Hence: one parent per node, consistent sibling links, no cycles.
  CHECK(E1, 0); CHECK(E2, 1); CHECK(T, 2);
  VX_ASSERT(F->fNode.fOwnerNode == (DOMNode*)doc && !F->fNode.isOwned(), "a document fragment is never owned");
  VX_ASSERT(E1->fParent.fFirstChild == (cnt[0] ? nd[lst[0][0]] : 0) && E2->fParent.fFirstChild == (cnt[1] ? nd[lst[1][0]] : 0) && F->fParent.fFirstChild == (cnt[3] ? nd[lst[3][0]] : 0),
            "every parent's first child is the first node of its list in the reference DOM");
  // and through the public getters for the operand parent
#ifdef GETTERS
  if (p != 2) {
    DOMNode* n = nd[p]->getFirstChild(); DOMNode* prev = 0;
    for (int k = 0; k < NN; k++) if (k < cnt[p]) {
      VX_ASSERT(n == nd[lst[p][k]], "child list of the operand parent in document order equals the reference DOM");
      if (n != nd[lst[p][k]]) return;
      VX_ASSERT(n->getParentNode() == nd[p] && n->getPreviousSibling() == prev, "getParentNode / getPreviousSibling are consistent with the child list");
      prev = n; n = n->getNextSibling();
    }
    VX_ASSERT(n == 0 && nd[p]->getLastChild() == prev, "the child list ends where the reference DOM's does; lastChild is its last node");
  }
#endif
}
