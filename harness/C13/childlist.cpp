// C13-P1b: the sibling list of one parent (real DOMParentNode::insertBefore / removeChild / appendChild reached through a REAL DOMElementImpl
// with REAL DOMTextImpl children - constructors, vtables, cross-casts of DOMCasts.hpp, flag logic of DOMNodeImpl).  The element has the first
// K of three text nodes as children (K symbolic, 0..3), the others are detached.  One operation with arbitrary operands - remove any of
// the three, or insert any of the three (a child: it moves; a detached one: it is added) before any of them or at the end - including the
// illegal ones (removing a node that is not a child, a reference child that is not a child).  Afterwards every node's links and flags are
// the canonical encoding of the DOM Core result (owner, owned / first-child flags, next / previous sibling with the first child's previous
// pointing at the last child, parent's first child), illegal operations raise NOT_FOUND_ERR and change nothing.
// (The general forest harness C13/treelinks.cpp reaches no verdict; this one keeps every link a choice among three nodes of one class.)
#include "vx.h"
#include "vx_open.h"
#include <xercesc/dom/impl/DOMElementImpl.hpp>
#include <xercesc/dom/impl/DOMTextImpl.hpp>
#include <xercesc/dom/impl/DOMDocumentImpl.hpp>
#include <xercesc/dom/impl/DOMStringPool.hpp>
#include <xercesc/dom/DOMException.hpp>
#include "vx_close.h"
#define VX_STUB_XMLEXCEPTION
#define VX_STUB_XMEMORY
#include "vx_stubs.hpp"
XMLCh vx_pooled[17];
static int vx_changes;
extern "C" void* vx_getRanges(void*) { return 0; }
extern "C" void* vx_getNodeIterators(void*) { return 0; }
extern "C" void vx_changed(void*) { vx_changes++; }
typedef Ranges* (DOMDocumentImpl::*VxGR)() const; typedef NodeIterators* (DOMDocumentImpl::*VxGI)() const; typedef void (DOMDocumentImpl::*VxCH)();
extern "C" { extern const VxGR vx_vslot_vx_getRanges; __attribute__((used)) const VxGR vx_vslot_vx_getRanges = &DOMDocumentImpl::getRanges;
             extern const VxGI vx_vslot_vx_getNodeIterators; __attribute__((used)) const VxGI vx_vslot_vx_getNodeIterators = &DOMDocumentImpl::getNodeIterators;
             extern const VxCH vx_vslot_vx_changed; __attribute__((used)) const VxCH vx_vslot_vx_changed = &DOMDocumentImpl::changed; }
static void* vx_docvt[220];
template <class PMF> static void vslot(PMF pmf, void* fn) { unsigned long off; memcpy(&off, &pmf, sizeof off); vx_docvt[2 + (off - 1) / 8] = fn; }
static DOMTextImpl* T[3]; static DOMNode* tn[3];
static int lst[4]; static int cnt;                         // reference model: the child list (indices of T)
static int posOf(int c) { for (int k = 0; k < 3; k++) if (k < cnt && lst[k] == c) return k; return -1; }
static void mremove(int c) { int k = posOf(c); if (k < 0) return; for (int j = 0; j < 2; j++) if (j >= k && j + 1 < cnt) lst[j] = lst[j + 1]; cnt--; }
static void minsert(int c, int at) { for (int j = 3; j > 0; j--) if (j > at && j <= cnt) lst[j] = lst[j - 1]; lst[at] = c; cnt++; }
#define CHECK(i) do { int k_ = posOf(i); bool ow_ = k_ >= 0; \
    VX_ASSERT(T[i]->fNode.fOwnerNode == (ow_ ? (DOMNode*)E : (DOMNode*)doc) && T[i]->fNode.isOwned() == ow_, "owner link and owned flag equal the reference DOM"); \
    VX_ASSERT(T[i]->fNode.isFirstChild() == (ow_ && k_ == 0), "first-child flag set exactly on the first child"); \
    VX_ASSERT(T[i]->fChild.nextSibling == ((ow_ && k_ + 1 < cnt) ? tn[lst[k_ + 1]] : 0), "nextSibling equals the reference DOM"); \
    VX_ASSERT(T[i]->fChild.previousSibling == (ow_ ? (k_ == 0 ? tn[lst[cnt - 1]] : tn[lst[k_ - 1]]) : 0), "previousSibling equals the reference DOM (first child -> last child)"); } while (0)
extern "C" void harness_childlist(void) {
  VxMM mm; XMLPlatformUtils::fgMemoryManager = &mm;
  static VxRaw<DOMDocumentImpl> dr; DOMDocumentImpl* doc = &dr.obj; doc->fRanges = 0; doc->fNodeIterators = 0; doc->fMemoryManager = &mm;
  vslot(&DOMDocumentImpl::getRanges, (void*)&vx_getRanges); vslot(&DOMDocumentImpl::getNodeIterators, (void*)&vx_getNodeIterators); vslot(&DOMDocumentImpl::changed, (void*)&vx_changed);
  *(void***)doc = &vx_docvt[2];
  static const XMLCh none[] = { 0 }, en[] = { 'e', 0 };
  static VxRaw<DOMElementImpl> re; static VxRaw<DOMTextImpl> r0, r1, r2;
  DOMElementImpl* E = new (&re.obj) DOMElementImpl((DOMDocument*)doc, en);
  T[0] = new (&r0.obj) DOMTextImpl((DOMDocument*)doc, none); T[1] = new (&r1.obj) DOMTextImpl((DOMDocument*)doc, none); T[2] = new (&r2.obj) DOMTextImpl((DOMDocument*)doc, none);
  tn[0] = T[0]; tn[1] = T[1]; tn[2] = T[2];
  // ---- the first K text nodes are the children, in order
  unsigned K = nondet_u8() % 4; cnt = (int)K; for (int i = 0; i < 3; i++) lst[i] = i;
  for (int i = 0; i < 3; i++) { bool ow = (unsigned)i < K;
    T[i]->fNode.fOwnerNode = ow ? (DOMNode*)E : (DOMNode*)doc; T[i]->fNode.isOwned(ow); T[i]->fNode.isFirstChild(ow && i == 0);
    T[i]->fChild.previousSibling = ow ? (i == 0 ? tn[K - 1] : tn[i - 1]) : 0; T[i]->fChild.nextSibling = (ow && (unsigned)(i + 1) < K) ? tn[i + 1] : 0; }
  E->fParent.fFirstChild = K ? tn[0] : 0;
  // ---- one arbitrary operation
#ifdef OP
  unsigned op = OP;
#else
  unsigned op = nondet_u8() % 2;
#endif
  int c = nondet_u8() % 3, r = (int)(nondet_u8() % 4) - 1;
#ifdef MODE
  // insert is split: MODE 0 = the new child is detached (it is added), MODE 1 = it is already a child (it moves)
  if (op == 0) VX_ASSUME(MODE == 0 ? posOf(c) < 0 : posOf(c) >= 0);
#endif
  int code = -1;
  try { if (op == 0) E->insertBefore(tn[c], r < 0 ? 0 : tn[r]); else E->removeChild(tn[c]); }
  catch (const DOMException& e) { code = e.code; }
  bool notfound = op == 0 ? (r >= 0 && posOf(r) < 0) : (posOf(c) < 0);
  if (notfound) { VX_ASSERT(code == DOMException::NOT_FOUND_ERR, "a child operand that is not a child raises NOT_FOUND_ERR"); VX_REACH("operation refused"); }
  else {
    VX_ASSERT(code == -1, "a legal operation raises no exception");
    if (op == 1) mremove(c);
    else if (r != c) { mremove(c); int at = r < 0 ? cnt : posOf(r); minsert(c, at); }
    if (op == 0 && posOf(c) >= 0 && r >= 0 && r != c && K >= 2) VX_REACH("child inserted or moved in front of a sibling");
    if (op == 1 && K == 1) VX_REACH("only child removed");
  }
  CHECK(0); CHECK(1); CHECK(2);
  VX_ASSERT(E->fParent.fFirstChild == (cnt ? tn[lst[0]] : 0), "the parent's first child is the first node of the reference list");
}
