// C02-P1: the character-class tables ARE the lexical productions.  For EVERY 16-bit code unit c (and every unit pair
// for the surrogate overloads) and both XML versions, the real accessors agree with range predicates transcribed from
// XML 1.0 (5th ed.) / XML 1.1:  [2] Char, [2a] RestrictedChar, [3] S, [4] NameStartChar, [4a] NameChar, NCName (= minus ':').
#include "vx.h"
#include "vx_open.h"
#include <xercesc/util/XMLChar.hpp>
#include "vx_close.h"
using namespace xercesc;
static bool nsc(unsigned c) { return c == 0x3A || (c >= 0x41 && c <= 0x5A) || c == 0x5F || (c >= 0x61 && c <= 0x7A) || (c >= 0xC0 && c <= 0xD6)
  || (c >= 0xD8 && c <= 0xF6) || (c >= 0xF8 && c <= 0x2FF) || (c >= 0x370 && c <= 0x37D) || (c >= 0x37F && c <= 0x1FFF) || (c >= 0x200C && c <= 0x200D)
  || (c >= 0x2070 && c <= 0x218F) || (c >= 0x2C00 && c <= 0x2FEF) || (c >= 0x3001 && c <= 0xD7FF) || (c >= 0xF900 && c <= 0xFDCF) || (c >= 0xFDF0 && c <= 0xFFFD); }
static bool nch(unsigned c) { return nsc(c) || c == 0x2D || c == 0x2E || (c >= 0x30 && c <= 0x39) || c == 0xB7 || (c >= 0x300 && c <= 0x36F) || (c >= 0x203F && c <= 0x2040); }
static bool char10(unsigned c) { return c == 0x9 || c == 0xA || c == 0xD || (c >= 0x20 && c <= 0xD7FF) || (c >= 0xE000 && c <= 0xFFFD); }
static bool restricted11(unsigned c) { return (c >= 0x1 && c <= 0x8) || (c >= 0xB && c <= 0xC) || (c >= 0xE && c <= 0x1F) || (c >= 0x7F && c <= 0x84) || (c >= 0x86 && c <= 0x9F); }
static bool char11(unsigned c) { return (c >= 0x1 && c <= 0xD7FF) || (c >= 0xE000 && c <= 0xFFFD); }
static bool lead(unsigned c) { return c >= 0xD800 && c <= 0xDBFF; }
static bool trail(unsigned c) { return c >= 0xDC00 && c <= 0xDFFF; }
extern "C" void harness_chartables(void) {
  XMLCh c = nondet_u16();
#if VERSION == 10
  // ---- XML 1.0, single code unit
  VX_ASSERT(XMLChar1_0::isXMLChar(c) == char10(c), "1.0 isXMLChar == production [2] Char (BMP, surrogates and FFFE/FFFF excluded)");
  VX_ASSERT(XMLChar1_0::isWhitespace(c) == (c == 0x20 || c == 0x9 || c == 0xD || c == 0xA), "1.0 isWhitespace == production [3] S");
  VX_ASSERT(XMLChar1_0::isFirstNameChar(c) == nsc(c), "1.0 isFirstNameChar == production [4] NameStartChar");
  VX_ASSERT(XMLChar1_0::isNameChar(c) == nch(c), "1.0 isNameChar == production [4a] NameChar");
  VX_ASSERT(XMLChar1_0::isFirstNCNameChar(c) == (nsc(c) && c != 0x3A), "1.0 isFirstNCNameChar == NameStartChar minus colon");
  VX_ASSERT(XMLChar1_0::isNCNameChar(c) == (nch(c) && c != 0x3A), "1.0 isNCNameChar == NameChar minus colon");
  VX_ASSERT(XMLChar1_0::isPlainContentChar(c) == (char10(c) && c != 0xA && c != 0xD && c != 0x26 && c != 0x3C && c != 0x5D),
            "1.0 isPlainContentChar == Char minus LF CR & < ]");
  VX_ASSERT(!XMLChar1_0::isControlChar(c), "1.0 has no control-char class");
  VX_ASSERT(XMLChar1_0::isSpecialStartTagChar(c) == (c == 0 || c == 0x9 || c == 0xA || c == 0xD || c == 0x20 || c == 0x22 || c == 0x27 || c == 0x2F || c == 0x3C || c == 0x3E),
            "1.0 isSpecialStartTagChar == NUL S quote apos / < >");
  // ---- unit pairs
  XMLCh d = nondet_u16(); VX_ASSUME(d != 0);
  VX_ASSERT(XMLChar1_0::isXMLChar(c, d) == (lead(c) && trail(d)), "1.0 isXMLChar(pair) == well-formed surrogate pair (U+10000..U+10FFFF)");
  VX_ASSERT(XMLChar1_0::isNameChar(c, d) == (c >= 0xD800 && c <= 0xDB7F && trail(d)), "1.0 isNameChar(pair) == U+10000..U+EFFFF");
  VX_ASSERT(XMLChar1_0::isFirstNameChar(c, d) == (c >= 0xD800 && c <= 0xDB7F && trail(d)), "1.0 isFirstNameChar(pair) == U+10000..U+EFFFF");
  VX_ASSERT(XMLChar1_0::isNCNameChar(c, d) == (c >= 0xD800 && c <= 0xDB7F && trail(d)), "1.0 isNCNameChar(pair) == U+10000..U+EFFFF");
  VX_ASSERT(XMLChar1_0::isPlainContentChar(c, d) == (lead(c) && trail(d)), "1.0 isPlainContentChar(pair) == well-formed pair");
  VX_ASSERT(!XMLChar1_0::isWhitespace(c, d), "1.0 no supplementary whitespace");
  if (c == 0xDB80 && d == 0xDC00) VX_REACH("1.0 pair above U+EFFFF");
  if (c == 0x3A) VX_REACH("1.0 colon");
#else
  // ---- XML 1.1, single code unit
  VX_ASSERT(XMLChar1_1::isXMLChar(c) == (char11(c) && !restricted11(c)), "1.1 isXMLChar == production [2] Char minus [2a] RestrictedChar");
  VX_ASSERT(XMLChar1_1::isControlChar(c) == (restricted11(c) || c == 0x9 || c == 0xA || c == 0xD || c == 0x85),
            "1.1 isControlChar == C0/C1 controls that may appear only as character references or are S/NEL");
  VX_ASSERT(XMLChar1_1::isWhitespace(c, 0) == (c == 0x20 || c == 0x9 || c == 0xD || c == 0xA || c == 0x85 || c == 0x2028), "1.1 isWhitespace == S plus NEL and LSEP (pre-normalisation)");
  VX_ASSERT(XMLChar1_1::isFirstNameChar(c) == nsc(c), "1.1 isFirstNameChar == production [4] NameStartChar");
  VX_ASSERT(XMLChar1_1::isNameChar(c) == nch(c), "1.1 isNameChar == production [4a] NameChar");
  VX_ASSERT(XMLChar1_1::isFirstNCNameChar(c) == (nsc(c) && c != 0x3A), "1.1 isFirstNCNameChar == NameStartChar minus colon");
  VX_ASSERT(XMLChar1_1::isNCNameChar(c) == (nch(c) && c != 0x3A), "1.1 isNCNameChar == NameChar minus colon");
  VX_ASSERT(XMLChar1_1::isPlainContentChar(c) == (char11(c) && !restricted11(c) && c != 0xA && c != 0xD && c != 0x26 && c != 0x3C && c != 0x5D && c != 0x85 && c != 0x2028),
            "1.1 isPlainContentChar == Char minus restricted, line ends, & < ]");
  XMLCh d = nondet_u16(); VX_ASSUME(d != 0);
  VX_ASSERT(XMLChar1_1::isXMLChar(c, d) == (lead(c) && trail(d)), "1.1 isXMLChar(pair) == well-formed surrogate pair");
  VX_ASSERT(XMLChar1_1::isNameChar(c, d) == (c >= 0xD800 && c <= 0xDB7F && trail(d)), "1.1 isNameChar(pair) == U+10000..U+EFFFF");
  VX_ASSERT(XMLChar1_1::isFirstNameChar(c, d) == (c >= 0xD800 && c <= 0xDB7F && trail(d)), "1.1 isFirstNameChar(pair) == U+10000..U+EFFFF");
  if (c == 0x85) VX_REACH("1.1 NEL");
  if (c == 0xDB80 && d == 0xDC00) VX_REACH("1.1 pair above U+EFFFF");
#endif
}
