// C02-P4: numeric character references (XML 1.0/1.1 production [66] CharRef and WFC "Legal Character"): real XMLScanner::scanCharRef - shared
// by all four scanners - reading from a scripted input of N symbolic units (the reader manager's peek/get/skip are cut to an array cursor).
// For EVERY input: the reference is accepted without any error iff it is '&#' digits ';' or '&#x' hexdigits ';' (lower-case x), with at
// least one digit, whose value - as a mathematical integer, however many digits - is a legal XML character of the document's version;
// then the character (or surrogate pair) returned is exactly that value.  Everything else is reported (error, or exception at end of input).
#include "vx.h"
#include "vx_open.h"
#include <xercesc/internal/IGXMLScanner.hpp>
#include <xercesc/internal/XMLReader.hpp>
#include "vx_close.h"
#define VX_STUB_XMLEXCEPTION
#define VX_STUB_XMEMORY
#include "vx_stubs.hpp"
#ifndef N
#define N 11
#endif
int vx_err_n; int vx_err_code[4]; int vx_addprefix_n; const XMLCh* vx_addprefix_prefix; unsigned vx_addprefix_uri; XMLBuffer* vx_the_buffer; int vx_bids, vx_releases;   // (C06/nsstubs.cpp)
XMLCh vx_in[N + 1]; unsigned vx_pos;
static bool xmlchar(unsigned v, bool v11) { return v11 ? ((v >= 1 && v <= 0xD7FF) || (v >= 0xE000 && v <= 0xFFFD) || (v >= 0x10000 && v <= 0x10FFFF))
                                                       : (v == 0x9 || v == 0xA || v == 0xD || (v >= 0x20 && v <= 0xD7FF) || (v >= 0xE000 && v <= 0xFFFD) || (v >= 0x10000 && v <= 0x10FFFF)); }
extern "C" void harness_charref(void) {
  VxMM mm;
  static VxRaw<IGXMLScanner> sr; IGXMLScanner* sc = &sr.obj; sc->fMemoryManager = &mm;
  static VxRaw<XMLReader> rr; XMLReader* rd = &rr.obj; bool v11 = nondet_bool();
  rd->fgCharCharsTable = v11 ? XMLChar1_1::fgCharCharsTable1_1 : XMLChar1_0::fgCharCharsTable1_0; rd->fXMLVersion = v11 ? XMLReader::XMLV1_1 : XMLReader::XMLV1_0;
  sc->fReaderMgr.fCurReader = rd;
  for (int i = 0; i < N; i++) vx_in[i] = nondet_u16(); vx_in[N] = 0;
  XMLCh c1 = 0x7777, c2 = 0x7777; bool threw = false, ok = false;
  try { ok = sc->XMLScanner::scanCharRef(c1, c2); } catch (const XMLException&) { threw = true; }
  // ---- reference: mathematical value with saturation far above the legal range
  unsigned i = 0; unsigned radix = 10; bool good = true;
  if (vx_in[0] == 'x') { radix = 16; i = 1; } else if (vx_in[0] == 'X') { good = false; radix = 16; i = 1; }
  unsigned long val = 0; bool terminated = false; unsigned digits = 0;
  for (unsigned k = 0; k < N; k++) if (k >= i && !terminated && good) {
    XMLCh ch = vx_in[k];
    if (ch == ';') { terminated = true; }
    else {
      unsigned d = (ch >= '0' && ch <= '9') ? (unsigned)(ch - '0') : (ch >= 'a' && ch <= 'f') ? (unsigned)(10 + ch - 'a') : (ch >= 'A' && ch <= 'F') ? (unsigned)(10 + ch - 'A') : 99;
      if (d >= radix) good = false; else { digits++; if (val < (1UL << 40)) val = val * radix + d; }
    }
  }
  bool valid = good && terminated && digits > 0 && val <= 0x10FFFF && xmlchar((unsigned)val, v11);
  VX_ASSERT((ok && !threw && vx_err_n == 0) == valid, "a character reference is accepted silently iff it is well-formed and denotes a legal character (value as a mathematical integer)");
  if (valid && ok) {
    if (val >= 0x10000) VX_ASSERT(c1 == (XMLCh)(0xD800 + ((val - 0x10000) >> 10)) && c2 == (XMLCh)(0xDC00 + ((val - 0x10000) & 0x3FF)), "a supplementary character is returned as its surrogate pair");
    else VX_ASSERT(c1 == (XMLCh)val && c2 == 0, "the character returned is the value of the reference");
    if (val >= 0x10000) VX_REACH("supplementary character reference");
  }
  if (!valid && good && terminated && digits >= 9) VX_REACH("reference with nine or more digits rejected");
  if (valid && radix == 10) VX_REACH("decimal reference accepted");
}
