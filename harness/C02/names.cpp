// C02-P3: Name / NCName / QName recognisers used wherever a name arrives as (pointer, count) - DOM name checks, schema NCName/QName/Name
// datatypes, attribute and element names in the validators - real XMLChar1_0 / XMLChar1_1 ::isValidNCName / isValidName / isValidQName.
// For EVERY buffer of 1..N units held in an EXACTLY sized object (so a read beyond `count` is a bounds violation): the verdict equals the
// productions Name [5], NCName and QName of XML / Namespaces in XML - in XML 1.1 with supplementary characters #x10000-#xEFFFF written as
// surrogate pairs, lone or private-plane surrogates rejected - and nothing outside [toCheck, toCheck+count) is read.
#include "vx.h"
#include "vx_open.h"
#include <xercesc/util/XMLChar.hpp>
#include <xercesc/util/XMLString.hpp>
#include "vx_close.h"
using namespace xercesc;
#ifndef N
#define N 3
#endif
static bool nsc(unsigned c) { return c == 0x3A || (c >= 0x41 && c <= 0x5A) || c == 0x5F || (c >= 0x61 && c <= 0x7A) || (c >= 0xC0 && c <= 0xD6)
  || (c >= 0xD8 && c <= 0xF6) || (c >= 0xF8 && c <= 0x2FF) || (c >= 0x370 && c <= 0x37D) || (c >= 0x37F && c <= 0x1FFF) || (c >= 0x200C && c <= 0x200D)
  || (c >= 0x2070 && c <= 0x218F) || (c >= 0x2C00 && c <= 0x2FEF) || (c >= 0x3001 && c <= 0xD7FF) || (c >= 0xF900 && c <= 0xFDCF) || (c >= 0xFDF0 && c <= 0xFFFD); }
static bool nch(unsigned c) { return nsc(c) || c == 0x2D || c == 0x2E || (c >= 0x30 && c <= 0x39) || c == 0xB7 || (c >= 0x300 && c <= 0x36F) || (c >= 0x203F && c <= 0x2040); }
// reference: is u[a..b) a Name (colonOk) / NCName (!colonOk)?
static bool refName(const XMLCh* u, XMLSize_t a, XMLSize_t b, bool colonOk, bool token = false) {      // token: Nmtoken [7] = (NameChar)+
  if (a >= b) return false;
  bool first = !token;
  for (XMLSize_t i = 0; i < N; i++) if (i >= a && i < b) {
    unsigned c = u[i];
#if VERSION == 11
    if (c >= 0xD800 && c <= 0xDBFF) {                       // supplementary character: planes 1..14 only (lead <= DB7F), must be a complete pair
      if (c > 0xDB7F || i + 1 >= b || !(u[i + 1] >= 0xDC00 && u[i + 1] <= 0xDFFF)) return false;
      i++; first = false; continue;
    }
    if (c >= 0xDC00 && c <= 0xDFFF) return false;
#endif
    if (!colonOk && c == 0x3A) return false;
    if (first ? !nsc(c) : !nch(c)) return false;
    first = false;
  }
  return true;
}
extern "C" void harness_names(void) {
  static XMLCh b1[1], b2[2], b3[3];                         // exactly sized: no terminator, nothing behind the last unit
  XMLSize_t n = nondet_u64(); VX_ASSUME(n >= 1 && n <= N);
  XMLCh u[N]; for (int i = 0; i < N; i++) u[i] = nondet_u16();
  XMLCh* p = n == 1 ? b1 : n == 2 ? b2 : b3;
  if (n == 1) { b1[0] = u[0]; } else if (n == 2) { b2[0] = u[0]; b2[1] = u[1]; } else { b3[0] = u[0]; b3[1] = u[1]; b3[2] = u[2]; }
#ifdef ONLYFN
  unsigned fn = ONLYFN;          // (used to run one recogniser against a pre-fix tree)
#else
  unsigned fn = nondet_u8() % 5;
#endif
  // fn 4: the zero-terminated overload isValidName(const XMLCh*), on an exactly sized terminated copy
  static XMLCh z1[2], z2[3], z3[4]; XMLCh* zp = n == 1 ? z1 : n == 2 ? z2 : z3;
  if (fn == 4) { for (int i = 0; i < N; i++) if ((XMLSize_t)i < n) VX_ASSUME(u[i] != 0); if (n == 1) { z1[0] = u[0]; z1[1] = 0; } else if (n == 2) { z2[0] = u[0]; z2[1] = u[1]; z2[2] = 0; } else { z3[0] = u[0]; z3[1] = u[1]; z3[2] = u[2]; z3[3] = 0; } }
  bool got, want;
#if VERSION == 10
  if (fn == 0) got = XMLChar1_0::isValidNCName(p, n); else if (fn == 1) got = XMLChar1_0::isValidName(p, n); else if (fn == 2) got = XMLChar1_0::isValidQName(p, n); else if (fn == 3) got = XMLChar1_0::isValidNmtoken(p, n); else got = XMLChar1_0::isValidName(zp);
#else
  if (fn == 0) got = XMLChar1_1::isValidNCName(p, n); else if (fn == 1) got = XMLChar1_1::isValidName(p, n); else if (fn == 2) got = XMLChar1_1::isValidQName(p, n); else if (fn == 3) got = XMLChar1_1::isValidNmtoken(p, n); else got = XMLChar1_1::isValidName(zp);
#endif
  if (fn == 0) want = refName(u, 0, n, false);
  else if (fn == 1 || fn == 4) want = refName(u, 0, n, true);
  else if (fn == 3) want = refName(u, 0, n, true, true);
  else {
    XMLSize_t k = 0; while (k < n && k < N && u[k] != 0x3A) k++;
    want = (k == n) ? refName(u, 0, n, false) : (refName(u, 0, k, false) && refName(u, k + 1, n, false));
  }
  VX_ASSERT(got == want, "Name / NCName / QName verdict equals the productions (supplementary characters as complete surrogate pairs in XML 1.1)");
  if (got && n == N && fn == 2 && u[1] == 0x3A) VX_REACH("prefixed QName accepted");
  if (!got && n == N) VX_REACH("rejected");
#if VERSION == 11
  if (got && u[0] >= 0xD800 && u[0] <= 0xDBFF) VX_REACH("name starting with a supplementary character accepted");
#else
  if (got && n == 1) VX_REACH("one-unit name accepted");
#endif
}
