// C02-P4: severity partition of scanner error codes.  For EVERY code value: exactly one of warning/error/fatal inside the
// valid range, none outside, errorType consistent; and the codes the scanners emit for violated well-formedness
// productions are all fatal (named list below).
#include "vx.h"
#include <xercesc/framework/XMLErrorCodes.hpp>
#include <xercesc/framework/XMLValidityCodes.hpp>
using namespace xercesc;
static const XMLErrs::Codes wf[] = {
  XMLErrs::EntityExpansionLimitExceeded, XMLErrs::ExpectedCommentOrCDATA, XMLErrs::ExpectedAttrName, XMLErrs::ExpectedEqSign, XMLErrs::ExpectedElementName,
  XMLErrs::CommentsMustStartWith, XMLErrs::InvalidDocumentStructure, XMLErrs::ExpectedDeclString, XMLErrs::BadXMLVersion, XMLErrs::UnsupportedXMLVersion,
  XMLErrs::UnterminatedXMLDecl, XMLErrs::BadXMLEncoding, XMLErrs::BadStandalone, XMLErrs::UnterminatedComment, XMLErrs::PINameExpected,
  XMLErrs::UnterminatedPI, XMLErrs::InvalidCharacter, XMLErrs::UnterminatedStartTag, XMLErrs::ExpectedAttrValue, XMLErrs::UnterminatedEndTag,
  XMLErrs::ExpectedEndOfTagX, XMLErrs::ExpectedMarkup, XMLErrs::NotValidAfterContent, XMLErrs::ExpectedComment, XMLErrs::ExpectedCommentOrPI,
  XMLErrs::ExpectedWhitespace, XMLErrs::NoRootElemInDOCTYPE, XMLErrs::ExpectedQuotedString, XMLErrs::ExpectedPublicId, XMLErrs::InvalidPublicIdChar,
  XMLErrs::UnterminatedDOCTYPE, XMLErrs::InvalidCharacterInIntSubset, XMLErrs::UnexpectedWhitespace, XMLErrs::InvalidCharacterInAttrValue, XMLErrs::ExpectedMarkupDecl,
  XMLErrs::TextDeclNotLegalHere, XMLErrs::InvalidCharacterRef, XMLErrs::UnterminatedCharRef, XMLErrs::ExpectedEntityRefName, XMLErrs::EntityNotFound,
  XMLErrs::NoUnparsedEntityRefs, XMLErrs::UnterminatedEntityRef, XMLErrs::RecursiveEntity, XMLErrs::PartialMarkupInEntity, XMLErrs::MoreEndThanStartTags,
  XMLErrs::AttrAlreadyUsedInSTag, XMLErrs::BracketInAttrValue, XMLErrs::Expected2ndSurrogateChar, XMLErrs::UnexpectedEOE, XMLErrs::ExpectedNumericalCharRef,
  XMLErrs::BadSequenceInCharData, XMLErrs::IllegalSequenceInComment, XMLErrs::UnterminatedCDATASection, XMLErrs::HexRadixMustBeLowerCase, XMLErrs::DeclStringRep,
  XMLErrs::DeclStringsInWrongOrder, XMLErrs::NoExtRefsInAttValue, XMLErrs::XMLDeclMustBeLowerCase, XMLErrs::BadDigitForRadix, XMLErrs::EndedWithTagsOnStack,
  XMLErrs::NestedCDATA, XMLErrs::UnknownPrefix, XMLErrs::PartialTagMarkupError, XMLErrs::EmptyMainEntity, XMLErrs::CDATAOutsideOfContent,
  XMLErrs::Unexpected2ndSurrogateChar, XMLErrs::NoPIStartsWithXML, XMLErrs::XMLDeclMustBeFirst, XMLErrs::XMLVersionRequired, XMLErrs::StandaloneNotLegal,
  XMLErrs::EncodingRequired, XMLErrs::ColonNotLegalWithNS, XMLErrs::XMLException_Fatal, XMLErrs::NoEmptyStrNamespace, XMLErrs::NoUseOfxmlnsAsPrefix,
  XMLErrs::NoUseOfxmlnsURI, XMLErrs::PrefixXMLNotMatchXMLURI, XMLErrs::XMLURINotMatchXMLPrefix, XMLErrs::NoXMLNSAsElementPrefix, XMLErrs::InvalidElementName,
  XMLErrs::InvalidAttrName, XMLErrs::InvalidEntityRefName, XMLErrs::DuplicateDocTypeDecl, XMLErrs::XIncludeCircularInclusionLoop, XMLErrs::XIncludeCircularInclusionDocIncludesSelf
};
extern "C" void harness_severity(void) {
  unsigned v = nondet_u32();
  XMLErrs::Codes c = (XMLErrs::Codes)v;
  int n = (XMLErrs::isFatal(c) ? 1 : 0) + (XMLErrs::isError(c) ? 1 : 0) + (XMLErrs::isWarning(c) ? 1 : 0);
  bool inrange = v >= XMLErrs::W_LowBounds && v <= XMLErrs::F_HighBounds;
  VX_ASSERT(n == (inrange ? 1 : 0), "every scanner code has exactly one severity; values outside have none");
  XMLErrorReporter::ErrTypes t = XMLErrs::errorType(c);
  VX_ASSERT((t == XMLErrorReporter::ErrType_Fatal) == XMLErrs::isFatal(c), "errorType Fatal iff isFatal");
  VX_ASSERT((t == XMLErrorReporter::ErrType_Error) == XMLErrs::isError(c), "errorType Error iff isError");
  VX_ASSERT((t == XMLErrorReporter::ErrType_Warning) == XMLErrs::isWarning(c), "errorType Warning iff isWarning");
  VX_ASSERT((XMLErrs::DOMErrorType(c) == DOMError::DOM_SEVERITY_FATAL_ERROR) == XMLErrs::isFatal(c), "DOM severity fatal iff isFatal");
  unsigned k = nondet_u32(); VX_ASSUME(k < sizeof(wf) / sizeof(wf[0]));
  VX_ASSERT(XMLErrs::isFatal(wf[k]), "well-formedness violation codes are fatal");
  VX_ASSERT(XMLErrs::errorType(wf[k]) == XMLErrorReporter::ErrType_Fatal, "well-formedness violation codes report ErrType_Fatal");
  unsigned w = nondet_u32(); XMLValid::Codes vc = (XMLValid::Codes)w;
  int m = (XMLValid::isFatal(vc) ? 1 : 0) + (XMLValid::isError(vc) ? 1 : 0) + (XMLValid::isWarning(vc) ? 1 : 0);
  VX_ASSERT(m == ((w >= XMLValid::E_LowBounds && w <= XMLValid::F_HighBounds) ? 1 : 0), "every validity code has exactly one severity");
  VX_ASSERT(!(w >= XMLValid::E_LowBounds && w < XMLValid::E_HighBounds) || XMLValid::errorType(vc) == XMLErrorReporter::ErrType_Error, "validity constraint codes are errors, not fatal");
  if (inrange && XMLErrs::isFatal(c)) VX_REACH("fatal code");
  if (!inrange) VX_REACH("code outside range");
}
