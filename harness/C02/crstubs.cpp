// Cuts for C02/charref.cpp: the reader manager's cursor operations read the scripted input.
#include "vx.h"
#include <xercesc/util/XercesDefs.hpp>
using namespace xercesc;
extern XMLCh vx_in[]; extern unsigned vx_pos;
#ifndef N
#define N 11
#endif
extern "C" {
bool vx_skipped(void*, XMLCh c) asm("_ZN11xercesc_4_09ReaderMgr11skippedCharEDs"); bool vx_skipped(void*, XMLCh c) { if (vx_pos < N && vx_in[vx_pos] == c) { vx_pos++; return true; } return false; }
XMLCh vx_peek(void*) asm("_ZN11xercesc_4_09ReaderMgr12peekNextCharEv"); XMLCh vx_peek(void*) { return vx_pos < N ? vx_in[vx_pos] : 0; }
XMLCh vx_get(void*) asm("_ZN11xercesc_4_09ReaderMgr11getNextCharEv"); XMLCh vx_get(void*) { return vx_pos < N ? vx_in[vx_pos++] : 0; }
}
