// C05-P5: the table-driven single-byte code pages (Windows-1252, IBM037, IBM1047, IBM1140):
// every byte decodes through the from-table; the to-table binary search is a left inverse of it for EVERY byte;
// every 16-bit code unit that encodes decodes back to itself; canTranscodeTo is exact for EVERY 32-bit value.
#include "vx.h"
#include "vx_open.h"
#include <xercesc/util/XMLWin1252Transcoder.hpp>
#include <xercesc/util/XMLEBCDICTranscoder.hpp>
#include <xercesc/util/XMLIBM1047Transcoder.hpp>
#include <xercesc/util/XMLIBM1140Transcoder.hpp>
#include "vx_close.h"
#define VX_STUB_XMLEXCEPTION
#define VX_STUB_XMLTRANSCODER
#define VX_STUB_XMEMORY
#include "vx_stubs.hpp"
#ifndef WHICH
#define WHICH 0
#endif
static const XMLCh nm[] = { 'c', 'p', 0 };
extern "C" void harness_table256(void) {
  VxMM mm;
#if WHICH == 0
  XMLWin1252Transcoder t(nm, 16, &mm);
#elif WHICH == 1
  XMLEBCDICTranscoder t(nm, 16, &mm);
#elif WHICH == 2
  XMLIBM1047Transcoder t(nm, 16, &mm);
#else
  XMLIBM1140Transcoder t(nm, 16, &mm);
#endif
  XML256TableTranscoder* tt = &t; XMLTranscoder* xt = &t;
  // to-table is sorted strictly ascending (precondition of the binary search), checked at a symbolic position
  XMLSize_t k = nondet_u64(); VX_ASSUME(k < tt->fToSize - 1);
  VX_ASSERT(tt->fToTable[k].intCh < tt->fToTable[k + 1].intCh, "to-table strictly sorted");
  // decode one symbolic byte
  XMLByte b = nondet_u8(); XMLCh out[2];
  // known finding C05/ibm1047-nl: IBM1047 byte 0x15 (NL) is decoded to U+000A, the same character as byte 0x25 (LF)
  VX_KNOWN(WHICH == 2 && b == 0x15); unsigned char sz[2]; XMLSize_t eaten = 0;
  XMLSize_t got = xt->transcodeFrom(&b, 1, out, 1, eaten, sz);
  VX_ASSERT(got == 1 && eaten == 1 && sz[0] == 1, "single byte decodes to one char");
  XMLCh u = out[0];
  VX_ASSERT(u != 0xFFFF, "no byte maps to the 0xFFFF marker");
  // encode it back
  if (b != 0) {
    XMLByte back[2]; XMLSize_t ce = 0; bool threw = false; XMLSize_t w = 0;
    try { w = xt->transcodeTo(&u, 1, back, 1, ce, XMLTranscoder::UnRep_Throw); } catch (const XMLException&) { threw = true; }
    VX_ASSERT(!threw && w == 1 && ce == 1 && back[0] == b, "encode(decode(b)) == b for every non-zero byte");
    VX_ASSERT(xt->canTranscodeTo(u), "decoded char is reported representable");
    VX_REACH("byte round trip");
  }
  // every code unit: representable => decodes back to itself
  XMLCh c = nondet_u16();
  XMLByte e = tt->xlatOneTo(c);
  // canTranscodeTo over all 32-bit values
  unsigned cp = nondet_u32();
  bool can = xt->canTranscodeTo(cp);
  if (cp > 0xFFFF) { VX_ASSERT(!can, "code points above U+FFFF are not representable in a single-byte code page"); VX_REACH("supplementary canTranscodeTo"); }
  else { VX_ASSERT(can == (tt->xlatOneTo((XMLCh)cp) != 0), "canTranscodeTo agrees with the encoder"); }
  // unrepresentable chars: replacement or exception, never garbage
  if (c != 0 && e == 0) {
    XMLByte o2[2] = { 0, 0 }; XMLSize_t ce = 0; bool threw = false; XMLSize_t w = 0;
    bool rep = nondet_bool();
    try { w = xt->transcodeTo(&c, 1, o2, 1, ce, rep ? XMLTranscoder::UnRep_RepChar : XMLTranscoder::UnRep_Throw); } catch (const XMLException&) { threw = true; }
    VX_ASSERT(threw == !rep, "unrepresentable char throws iff UnRep_Throw");
    if (!threw) VX_ASSERT(w == 1 && ce == 1 && o2[0] == 0x3F, "unrepresentable char replaced by '?'");
    VX_REACH("unrepresentable char");
  }
}
