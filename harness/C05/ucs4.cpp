// C05-P4: XMLUCS4Transcoder decode/encode exactness, both byte orders (real object via real ctor, vtable calls).
#include "vx.h"
#include "vx_open.h"
#include <xercesc/util/XMLUCS4Transcoder.hpp>
#include "vx_close.h"
#define VX_STUB_XMLEXCEPTION
#define VX_STUB_XMLTRANSCODER
#define VX_STUB_XMEMORY
#include "vx_stubs.hpp"
#ifndef NW
#define NW 2          /* symbolic UCS-4 words */
#endif
static const XMLCh nm[] = { 'U', 'C', 'S', '4', 0 };
static unsigned rd32(const XMLByte* p, bool swapped) {
  // value of the word as the host (little endian) reads it, byte-swapped when the transcoder is "swapped"
  unsigned le = p[0] | (p[1] << 8) | (p[2] << 16) | ((unsigned)p[3] << 24);
  unsigned be = p[3] | (p[2] << 8) | (p[1] << 16) | ((unsigned)p[0] << 24);
  return swapped ? be : le;
}
extern "C" void harness_ucs4_decode(void) {
  VxMM mm;
  bool swapped = nondet_bool();
  XMLUCS4Transcoder t(nm, 16, swapped, &mm);
  XMLTranscoder* xt = &t;
  alignas(4) XMLByte src[4 * NW]; XMLCh out[2 * NW + 1]; unsigned char sizes[2 * NW + 1];
  for (int i = 0; i < 4 * NW; i++) src[i] = nondet_u8();
  XMLSize_t n = nondet_u64(); VX_ASSUME(n <= 4 * NW);
  XMLSize_t m = nondet_u64(); VX_ASSUME(m <= 2 * NW);
  XMLSize_t eaten = 0, got = 0; bool threw = false;
  try { got = xt->transcodeFrom(src, n, out, m, eaten, sizes); } catch (const XMLException&) { threw = true; }
  // reference
  XMLSize_t i = 0, o = 0; bool ill = false; XMLCh r[2 * NW + 1]; unsigned char rs[2 * NW + 1]; bool pair = false;
  while (o < m && 4 * (i + 1) <= n) {
    unsigned v = rd32(src + 4 * i, swapped);
    if (v > 0x10FFFF || (v >= 0xD800 && v <= 0xDFFF)) { ill = true; break; }   // not a Unicode scalar value: must be rejected
    if (v < 0x10000) { r[o] = (XMLCh)v; rs[o] = 4; o++; }
    else { if (o + 2 > m) break; v -= 0x10000; r[o] = (XMLCh)(0xD800 + (v >> 10)); rs[o] = 4; r[o + 1] = (XMLCh)(0xDC00 + (v & 0x3FF)); rs[o + 1] = 0; o += 2; pair = true; }
    i++;
  }
  VX_ASSERT(threw == ill, "UCS-4 decode rejects exactly the values that are not Unicode scalar values");
  if (!threw) {
    VX_ASSERT(got == o, "UCS-4 decode: chars produced equals reference");
    VX_ASSERT(eaten == 4 * i, "UCS-4 decode: bytesEaten = 4 * words consumed (trailing partial word left)");
    for (XMLSize_t k = 0; k < 2 * NW; k++) if (k < got && got == o) {
      VX_ASSERT(out[k] == r[k], "UCS-4 decode: code unit equals reference");
      VX_ASSERT(sizes[k] == rs[k], "UCS-4 decode: charSizes equals reference");
    }
    if (pair) VX_REACH("ucs4 supplementary decoded");
    if (got == 2 && !pair) VX_REACH("ucs4 two BMP chars decoded");
  } else VX_REACH("ucs4 out-of-range value rejected");
}
#ifndef NC
#define NC 3          /* symbolic UTF-16 units */
#endif
extern "C" void harness_ucs4_encode(void) {
  VxMM mm;
  bool swapped = nondet_bool();
  XMLUCS4Transcoder t(nm, 16, swapped, &mm);
  XMLTranscoder* xt = &t;
  XMLCh src[NC]; alignas(4) XMLByte out[4 * NC + 4];
  for (int i = 0; i < NC; i++) src[i] = nondet_u16();
  XMLSize_t n = nondet_u64(); VX_ASSUME(n <= NC);
  XMLSize_t mb = nondet_u64(); VX_ASSUME(mb <= 4 * NC);
  XMLSize_t eaten = 0, got = 0; bool threw = false;
  try { got = xt->transcodeTo(src, n, out, mb, eaten, XMLTranscoder::UnRep_Throw); } catch (const XMLException&) { threw = true; }
  // reference
  XMLSize_t i = 0, o = 0; bool ill = false; unsigned r[NC + 1]; bool pair = false;
  while (o < mb / 4 && i < n) {
    unsigned c = src[i];
    if (c >= 0xD800 && c <= 0xDBFF) {
      if (i + 1 == n) break;
      unsigned d = src[i + 1];
      if (d < 0xDC00 || d > 0xDFFF) { ill = true; break; }
      r[o++] = 0x10000 + ((c - 0xD800) << 10) + (d - 0xDC00); i += 2; pair = true;
    } else { r[o++] = c; i++; }
  }
  VX_ASSERT(threw == ill, "UCS-4 encode throws iff a lead surrogate is followed by a non-trail unit");
  if (!threw) {
    VX_ASSERT(got == 4 * o, "UCS-4 encode: bytes produced equals reference");
    VX_ASSERT(eaten == i, "UCS-4 encode: charsEaten equals reference (lone trailing lead surrogate left)");
    for (XMLSize_t k = 0; k < NC; k++) if (k < o && got == 4 * o)
      VX_ASSERT(rd32(out + 4 * k, swapped) == r[k], "UCS-4 encode: word equals the code point in the transcoder's byte order");
    if (pair) VX_REACH("ucs4 supplementary encoded");
    if (o == NC) VX_REACH("ucs4 NC BMP chars encoded");
  } else VX_REACH("ucs4 bad trailing surrogate rejected");
}
