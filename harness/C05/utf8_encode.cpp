// C05-P5: XMLUTF8Transcoder::transcodeTo (the encoder every UTF-8 serialisation and every transcode-to-UTF-8 goes through), real object,
// called through its vtable.  For EVERY source of <= N UTF-16 units (ill-formed sequences included), every srcCount, every output size
// maxBytes <= MAXB and both unrepresentable-character options:
//   (memory) nothing is written at or behind toFill + maxBytes and the byte count returned does not exceed maxBytes - for ANY input;
//   (function) for well-formed UTF-16 the bytes written are the UTF-8 encoding (Unicode Table 3-6) of exactly the units reported eaten, the
//   units eaten are the longest prefix of whole characters whose encoding fits, a lead surrogate at the end of the source is left for the
//   next call, and no exception is raised.
#include "vx.h"
#include "vx_open.h"
#include <xercesc/util/XMLUTF8Transcoder.hpp>
#include "vx_close.h"
#define VX_STUB_XMLEXCEPTION
#define VX_STUB_XMLTRANSCODER
#define VX_STUB_XMEMORY
#define VX_STUB_NUMTOTEXT
#include "vx_stubs.hpp"
#ifndef N
#define N 3
#endif
#define MAXB 6
#define OUTSZ (MAXB + 4)
extern "C" void harness_utf8_encode(void) {
  VxMM mm;
  static const XMLCh nm[] = { 'U', 'T', 'F', '-', '8', 0 };
  XMLUTF8Transcoder t(nm, 16, &mm); XMLTranscoder* xt = &t;
  XMLCh src[N]; for (int i = 0; i < N; i++) src[i] = nondet_u16();
  XMLSize_t n = nondet_u64(), mb = nondet_u64(); VX_ASSUME(n <= N && mb <= MAXB);
  bool thr = nondet_bool();
  static XMLByte out[OUTSZ]; for (int i = 0; i < OUTSZ; i++) out[i] = 0xEE;
  XMLSize_t eaten = 0, got = 0; bool threw = false;
  try { got = xt->transcodeTo(src, n, out, mb, eaten, thr ? XMLTranscoder::UnRep_Throw : XMLTranscoder::UnRep_RepChar); } catch (const XMLException&) { threw = true; }
  // ---- memory: the output block is [out, out + mb)
  for (XMLSize_t k = 0; k < OUTSZ; k++) if (k >= mb) VX_ASSERT(out[k] == 0xEE, "nothing is written at or behind toFill + maxBytes");
  if (!threw) VX_ASSERT(got <= mb && eaten <= n, "bytes produced <= maxBytes and units eaten <= srcCount");
  // ---- function, for well-formed UTF-16 within the first n units (a trailing lone lead is allowed: it is left for the next call)
  bool wf = true;
  for (XMLSize_t i = 0; i < N; i++) if (i < n) {
    bool lead = src[i] >= 0xD800 && src[i] <= 0xDBFF, trail = src[i] >= 0xDC00 && src[i] <= 0xDFFF;
    if (lead && i + 1 < n && !(src[i + 1] >= 0xDC00 && src[i + 1] <= 0xDFFF)) wf = false;
    if (trail && !(i > 0 && src[i - 1] >= 0xD800 && src[i - 1] <= 0xDBFF)) wf = false;
  }
  if (wf && n > 0 && mb > 0) {
    XMLByte ref[N * 4]; XMLSize_t rn = 0, re = 0; bool stop = false;
    for (XMLSize_t i = 0; i < N; i++) if (i < n && !stop && i == re) {
      unsigned cp = src[i]; unsigned used = 1;
      if (cp >= 0xD800 && cp <= 0xDBFF) { if (i + 1 >= n) { stop = true; continue; } cp = 0x10000 + ((cp - 0xD800) << 10) + (src[i + 1] - 0xDC00); used = 2; }
      unsigned nb = cp < 0x80 ? 1 : cp < 0x800 ? 2 : cp < 0x10000 ? 3 : 4;
      if (rn + nb > mb) { stop = true; continue; }
      if (nb == 1) ref[rn++] = (XMLByte)cp;
      else if (nb == 2) { ref[rn++] = (XMLByte)(0xC0 | (cp >> 6)); ref[rn++] = (XMLByte)(0x80 | (cp & 0x3F)); }
      else if (nb == 3) { ref[rn++] = (XMLByte)(0xE0 | (cp >> 12)); ref[rn++] = (XMLByte)(0x80 | ((cp >> 6) & 0x3F)); ref[rn++] = (XMLByte)(0x80 | (cp & 0x3F)); }
      else { ref[rn++] = (XMLByte)(0xF0 | (cp >> 18)); ref[rn++] = (XMLByte)(0x80 | ((cp >> 12) & 0x3F)); ref[rn++] = (XMLByte)(0x80 | ((cp >> 6) & 0x3F)); ref[rn++] = (XMLByte)(0x80 | (cp & 0x3F)); }
      re += used;
    }
    VX_ASSERT(!threw, "well-formed UTF-16 is always representable in UTF-8");
    if (!threw) {
      VX_ASSERT(eaten == re && got == rn, "units eaten = longest prefix of whole characters that fits; bytes produced = its encoded length");
      for (XMLSize_t k = 0; k < MAXB; k++) if (k < rn && got == rn) VX_ASSERT(out[k] == ref[k], "bytes written = UTF-8 encoding (Table 3-6) of the units eaten");
      if (re == 2 && rn == 4) VX_REACH("supplementary character encoded in four bytes");
      if (re < n && re > 0) VX_REACH("stopped early: next character does not fit or lone lead at the end");
    }
  }
  if (!wf) VX_REACH("ill-formed UTF-16 source");
}
