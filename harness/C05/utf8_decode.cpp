// C05-P1: XMLUTF8Transcoder::transcodeFrom == reference decoder (Unicode Table 3-7) for EVERY byte string of
// length <= N, every srcCount <= N and every maxChars <= N.  Real code: the transcoder object built by its
// real constructor, called through its vtable; exceptions by the real throw sites.
#include "vx.h"
#include "vx_open.h"
#include <xercesc/util/XMLUTF8Transcoder.hpp>
#include "vx_close.h"
#define VX_STUB_XMLEXCEPTION
#define VX_STUB_XMLTRANSCODER
#define VX_STUB_XMEMORY
#include "vx_stubs.hpp"
#ifndef N
#define N 4
#endif
// reference: returns false if the next complete sequence is ill-formed (decoder must throw)
struct Ref { XMLSize_t eaten, got; XMLCh out[N + 1]; unsigned char sz[N + 1]; bool ill; bool sawPair, sawIncomplete; };
static void ref_decode(const XMLByte* s, XMLSize_t n, XMLSize_t max, Ref& r) {
  XMLSize_t i = 0, o = 0; r.ill = false; r.sawPair = false; r.sawIncomplete = false;
  while (i < n && o < max) {
    unsigned b = s[i];
    if (b < 0x80) { r.out[o] = (XMLCh)b; r.sz[o] = 1; o++; i++; continue; }
    unsigned need = (b >= 0xC2 && b <= 0xDF) ? 2 : (b >= 0xE0 && b <= 0xEF) ? 3 : (b >= 0xF0 && b <= 0xF7) ? 4
                  : (b >= 0xF8 && b <= 0xFB) ? 5 : (b >= 0xFC) ? 6 : 1;
    if (need == 1) { r.ill = true; break; }              // stray continuation byte, C0, C1
    if (i + need > n) { r.sawIncomplete = true; break; }    // incomplete trailing sequence: left for the next block
    if (need >= 5 || b >= 0xF5) { r.ill = true; break; }
    unsigned b1 = s[i + 1];
    unsigned lo = 0x80, hi = 0xBF;
    if (b == 0xE0) lo = 0xA0; if (b == 0xED) hi = 0x9F; if (b == 0xF0) lo = 0x90; if (b == 0xF4) hi = 0x8F;
    if (b1 < lo || b1 > hi) { r.ill = true; break; }
    unsigned cp;
    if (need == 2) cp = ((b & 0x1F) << 6) | (b1 & 0x3F);
    else {
      unsigned b2 = s[i + 2]; if ((b2 & 0xC0) != 0x80) { r.ill = true; break; }
      if (need == 3) cp = ((b & 0x0F) << 12) | ((b1 & 0x3F) << 6) | (b2 & 0x3F);
      else { unsigned b3 = s[i + 3]; if ((b3 & 0xC0) != 0x80) { r.ill = true; break; }
             cp = ((b & 0x07) << 18) | ((b1 & 0x3F) << 12) | ((b2 & 0x3F) << 6) | (b3 & 0x3F); }
    }
    if (cp < 0x10000) { r.out[o] = (XMLCh)cp; r.sz[o] = (unsigned char)need; o++; }
    else {
      if (o + 2 > max) break;                             // a pair is never split across maxChars
      cp -= 0x10000; r.out[o] = (XMLCh)(0xD800 + (cp >> 10)); r.sz[o] = 4; r.out[o + 1] = (XMLCh)(0xDC00 + (cp & 0x3FF)); r.sz[o + 1] = 0; o += 2;
      r.sawPair = true;
    }
    i += need;
  }
  r.eaten = i; r.got = o;
}
extern "C" void harness_utf8_decode(void) {
  VxMM mm;
  static const XMLCh nm[] = { 'U', 'T', 'F', '-', '8', 0 };
  XMLUTF8Transcoder t(nm, 16, &mm);
  XMLTranscoder* xt = &t;
  XMLByte src[N]; XMLCh out[N + 1]; unsigned char sizes[N + 1];
  for (int i = 0; i < N; i++) src[i] = nondet_u8();
  XMLSize_t n = nondet_u64(); VX_ASSUME(n <= N);
  XMLSize_t m = nondet_u64(); VX_ASSUME(m <= N);
  XMLSize_t eaten = 0, got = 0; bool threw = false;
  try { got = xt->transcodeFrom(src, n, out, m, eaten, sizes); }
  catch (const XMLException&) { threw = true; }
  Ref r; ref_decode(src, n, m, r);
  // ill-formed sequences are rejected, never decoded; legal ones never rejected
  VX_ASSERT(threw == r.ill, "throws iff next complete sequence is ill-formed (Table 3-7)");
  if (!threw) {
    VX_ASSERT(got == r.got, "number of chars produced equals reference");
    VX_ASSERT(eaten == r.eaten, "bytesEaten equals reference (stops before incomplete trailing sequence)");
    for (XMLSize_t i = 0; i < N; i++) if (i < got && got == r.got) {
      VX_ASSERT(out[i] == r.out[i], "decoded code unit equals reference");
      VX_ASSERT(sizes[i] == r.sz[i], "charSizes entry equals reference");
    }
    if (r.sawPair) VX_REACH("supplementary code point decoded to surrogate pair");
    if (r.sawIncomplete) VX_REACH("stopped before incomplete trailing sequence");
    if (got == N) VX_REACH("N ascii/bmp chars decoded");
  } else {
    VX_REACH("ill-formed sequence rejected");
  }
}
