// C05-P4: XMLUTF16Transcoder decode/encode exactness, both byte orders.
#include "vx.h"
#include "vx_open.h"
#include <xercesc/util/XMLUTF16Transcoder.hpp>
#include "vx_close.h"
#define VX_STUB_XMLEXCEPTION
#define VX_STUB_XMLTRANSCODER
#define VX_STUB_XMEMORY
#include "vx_stubs.hpp"
#ifndef NU
#define NU 3
#endif
static const XMLCh nm[] = { 'U', 'T', 'F', '1', '6', 0 };
extern "C" void harness_utf16(void) {
  VxMM mm;
  bool swapped = nondet_bool();
  XMLUTF16Transcoder t(nm, 16, swapped, &mm);
  XMLTranscoder* xt = &t;
  alignas(2) XMLByte src[2 * NU + 1]; XMLCh out[NU + 1]; unsigned char sizes[NU + 1];
  for (int i = 0; i < 2 * NU + 1; i++) src[i] = nondet_u8();
  XMLSize_t n = nondet_u64(); VX_ASSUME(n <= 2 * NU + 1);
  XMLSize_t m = nondet_u64(); VX_ASSUME(m <= NU);
  XMLSize_t eaten = 0, got = 0; bool threw = false;
  try { got = xt->transcodeFrom(src, n, out, m, eaten, sizes); } catch (const XMLException&) { threw = true; }
  XMLSize_t want = n / 2 < m ? n / 2 : m;
  VX_ASSERT(!threw, "UTF-16 decode never throws");
  VX_ASSERT(got == want, "UTF-16 decode: chars = min(srcCount/2, maxChars)");
  VX_ASSERT(eaten == 2 * want, "UTF-16 decode: bytesEaten = 2*chars, odd trailing byte left unconsumed");
  for (XMLSize_t k = 0; k < NU; k++) if (k < want) {
    unsigned v = swapped ? (src[2 * k] << 8 | src[2 * k + 1]) : (src[2 * k + 1] << 8 | src[2 * k]);
    VX_ASSERT(out[k] == (XMLCh)v, "UTF-16 decode: unit equals the 16-bit value in the transcoder's byte order");
    VX_ASSERT(sizes[k] == 2, "UTF-16 decode: charSizes = 2");
  }
  if (want == NU && swapped) VX_REACH("utf16 swapped full decode");
  if (want == NU && !swapped) VX_REACH("utf16 native full decode");
  // encode the decoded units back: exact inverse
  alignas(2) XMLByte back[2 * NU + 2]; XMLSize_t ce = 0; XMLSize_t mb = nondet_u64(); VX_ASSUME(mb <= 2 * NU + 1);
  XMLSize_t wb = 0; bool threw2 = false;
  try { wb = xt->transcodeTo(out, want, back, mb, ce, XMLTranscoder::UnRep_Throw); } catch (const XMLException&) { threw2 = true; }
  XMLSize_t want2 = want < mb / 2 ? want : mb / 2;
  VX_ASSERT(!threw2, "UTF-16 encode never throws");
  VX_ASSERT(ce == want2 && wb == 2 * want2, "UTF-16 encode: counts = min(srcCount, maxBytes/2)");
  for (XMLSize_t k = 0; k < 2 * NU; k++) if (k < 2 * want2) VX_ASSERT(back[k] == src[k], "UTF-16 encode(decode(bytes)) == bytes");
  if (want2 == NU) VX_REACH("utf16 round trip of NU units");
}
