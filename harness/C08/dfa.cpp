// C08-P1: the DFA table interpreter that decides element content for every non-trivial schema (and DTD) content model.
// The automaton itself is SYMBOLIC: <= 3 states x 2 element-map entries, arbitrary transition table (incl. invalid transitions),
// arbitrary final flags, entry types Leaf / Any_NS / Any_Other (namespace-constrained wildcards), mixed or not, emptiness flag.
// For EVERY such automaton that is deterministic on the children considered (unique particle attribution) and EVERY child sequence
// of length <= N: the real DFAContentModel::validateContent accepts iff a reference run of the automaton ends in a final state,
// and on rejection reports the index of the first child without a valid transition.
#include "vx.h"
#include "vx_open.h"
#include <xercesc/validators/common/DFAContentModel.hpp>
#include <xercesc/validators/common/ContentSpecNode.hpp>
#include <xercesc/framework/XMLElementDecl.hpp>
#include <xercesc/framework/XMLContentModel.hpp>
#include <xercesc/util/QName.hpp>
#include "vx_close.h"
#define VX_STUB_XMLEXCEPTION
#define VX_STUB_XMEMORY
#include "vx_stubs.hpp"
#ifndef N
#define N 3
#endif
#define S 3
#define E 2
const XMLCh* QName::getRawName() const { return fRawName; }
XMLCh* QName::getRawName() { return fRawName; }
extern "C" void* _ZTVN11xercesc_4_015DFAContentModelE[];      // the class's real vtable (handleRepetitions is virtual): the object below is built without its constructor
struct Nm { XMLCh s[2]; unsigned uri; };
static XMLCh EMPTYSTR[1] = { 0 };
static QName* mkq(void* storage, Nm& n) {
  QName* q = (QName*)storage; q->fPrefix = EMPTYSTR; q->fLocalPart = n.s; q->fRawName = n.s; q->fURIId = n.uri;
  q->fPrefixBufSz = 0; q->fLocalPartBufSz = 1; q->fRawNameBufSz = 1; q->fMemoryManager = 0; return q;
}
static void symname(Nm& n) { n.s[0] = nondet_u16(); VX_ASSUME(n.s[0] >= 'a' && n.s[0] <= 'c'); n.s[1] = 0; n.uri = nondet_u32(); VX_ASSUME(n.uri >= 1 && n.uri <= 4); }
static bool matches(unsigned type, const Nm& decl, const Nm& c, bool dtd) {
  if (dtd) return decl.s[0] == c.s[0];
  if (type == ContentSpecNode::Leaf) return decl.uri == c.uri && decl.s[0] == c.s[0];
  if (type == ContentSpecNode::Any_NS) return decl.uri == c.uri;
  return c.uri != 1 && c.uri != decl.uri;                       // Any_Other: any namespace but the target one and the absent one (id 1)
}
extern "C" void harness_dfa(void) {
  VxMM mm;
  VxRaw<QName> qs[N + E]; VxRaw<DFAContentModel> cms;
  unsigned tt[S][E]; unsigned* rows[S]; bool fin[S]; Nm decl[E]; QName* emap[E]; ContentSpecNode::NodeTypes ety[E];
  bool dtd = nondet_bool(), mixed = nondet_bool(), emptyOk = nondet_bool();
  for (int s = 0; s < S; s++) { rows[s] = tt[s]; fin[s] = nondet_bool(); for (int e = 0; e < E; e++) { tt[s][e] = nondet_u32(); VX_ASSUME(tt[s][e] < S || tt[s][e] == XMLContentModel::gInvalidTrans); } }
  for (int e = 0; e < E; e++) { symname(decl[e]); emap[e] = mkq(&qs[N + e].obj, decl[e]); unsigned t = nondet_u8();
    VX_ASSUME(t == ContentSpecNode::Leaf || (!dtd && (t == ContentSpecNode::Any_NS || t == ContentSpecNode::Any_Other))); ety[e] = (ContentSpecNode::NodeTypes)t; }
  DFAContentModel* cm = &cms.obj; *(void***)cm = &_ZTVN11xercesc_4_015DFAContentModelE[2];
  cm->fElemMap = emap; cm->fElemMapType = ety; cm->fElemMapSize = E; cm->fEmptyOk = emptyOk; cm->fFinalStateFlags = fin; cm->fTransTable = rows; cm->fTransTableSize = S;
  cm->fCountingStates = 0; cm->fDTD = dtd; cm->fIsMixed = mixed; cm->fMemoryManager = &mm;
  XMLSize_t n = nondet_u64(); VX_ASSUME(n <= N);
  Nm c[N]; QName* kids[N]; bool pcd[N];
  for (int i = 0; i < N; i++) { symname(c[i]); pcd[i] = mixed && nondet_bool(); if (pcd[i]) c[i].uri = XMLElementDecl::fgPCDataElemId; kids[i] = mkq(&qs[i].obj, c[i]);
    if (!pcd[i]) VX_ASSUME(!(matches(ety[0], decl[0], c[i], dtd) && matches(ety[1], decl[1], c[i], dtd))); }     // unique particle attribution
  XMLSize_t fail = 99; bool ok = cm->DFAContentModel::validateContent(kids, n, 0, &fail, &mm);
  // reference run
  bool want; XMLSize_t wantFail = 99;
  if (n == 0) { want = emptyOk; wantFail = 0; }
  else {
    unsigned cur = 0; bool dead = false;
    for (XMLSize_t i = 0; i < N; i++) if (i < n && !dead && !pcd[i]) {
      unsigned nx = XMLContentModel::gInvalidTrans;
      for (int e = 0; e < E; e++) if (nx == XMLContentModel::gInvalidTrans && matches(ety[e], decl[e], c[i], dtd)) nx = tt[cur][e];
      if (nx == XMLContentModel::gInvalidTrans) { dead = true; wantFail = i; } else cur = nx;
    }
    want = !dead && fin[cur]; if (!dead && !fin[cur]) wantFail = n;
  }
  VX_ASSERT(ok == want, "children accepted iff the automaton, run from state 0, consumes them all and stops in a final state");
  if (!ok) VX_ASSERT(fail == wantFail, "failing index = first child without a valid transition (or childCount when stopping in a non-final state)");
  if (ok && n == N && !pcd[0] && !pcd[1] && !pcd[2]) VX_REACH("three element children accepted");
  if (!ok && wantFail == 1) VX_REACH("rejected at the second child");
  if (!dtd && ety[0] == ContentSpecNode::Any_Other && ok && n >= 1 && !pcd[0]) VX_REACH("wildcard ##other accepted a child");
}

// C08-P2: counting states (minOccurs/maxOccurs counters of the DFA interpreter: handleRepetitions and the end-of-content minOccurs test).
// The automaton is the one buildDFA produces for the schema particle sequence  ( a{min,max} , b? )  - state 0 --a--> 1, state 1 --a--> 1
// (counting state: Occurence{min,max,elemIndex of a}), state 1 --b--> 2, states 1 and 2 final - with SYMBOLIC bounds 1 <= min <= max <= 4 or
// max unbounded, and every child sequence of <= NC elements over {a, b, c}.  Accepted iff the children are a^k b? with min <= k <= max.
#ifndef NC
#define NC 5
#endif
extern "C" void harness_dfa_count(void) {
  VxMM mm;
  VxRaw<QName> qs[NC + 2]; VxRaw<DFAContentModel> cms;
  unsigned INV = XMLContentModel::gInvalidTrans;
  unsigned tt[3][2] = { { 1, INV }, { 1, 2 }, { INV, INV } }; unsigned* rows[3] = { tt[0], tt[1], tt[2] }; bool fin[3] = { false, true, true };
  Nm decl[2]; decl[0].s[0] = 'a'; decl[0].s[1] = 0; decl[0].uri = 2; decl[1].s[0] = 'b'; decl[1].s[1] = 0; decl[1].uri = 2;
  QName* emap[2]; ContentSpecNode::NodeTypes ety[2] = { ContentSpecNode::Leaf, ContentSpecNode::Leaf };
  for (int e = 0; e < 2; e++) emap[e] = mkq(&qs[NC + e].obj, decl[e]);
  int mn = (int)nondet_u8(), mx = (int)(signed char)nondet_u8();
  VX_ASSUME(mn >= 1 && mn <= 4 && (mx == -1 || (mx >= mn && mx <= 4)) && !(mn == 1 && mx == 1));      // a counter exists only for a real repetition
  DFAContentModel::Occurence occ(mn, mx, 0); DFAContentModel::Occurence* cs[3] = { 0, &occ, 0 };
  DFAContentModel* cm = &cms.obj; *(void***)cm = &_ZTVN11xercesc_4_015DFAContentModelE[2];
  cm->fElemMap = emap; cm->fElemMapType = ety; cm->fElemMapSize = 2; cm->fEmptyOk = false; cm->fFinalStateFlags = fin; cm->fTransTable = rows; cm->fTransTableSize = 3;
  cm->fCountingStates = cs; cm->fDTD = false; cm->fIsMixed = false; cm->fMemoryManager = &mm;
  XMLSize_t n = nondet_u64(); VX_ASSUME(n <= NC);
  Nm c[NC]; QName* kids[NC];
  for (int i = 0; i < NC; i++) { c[i].s[0] = nondet_u16(); VX_ASSUME(c[i].s[0] >= 'a' && c[i].s[0] <= 'c'); c[i].s[1] = 0; c[i].uri = 2; kids[i] = mkq(&qs[i].obj, c[i]); }
  XMLSize_t fail = 99; bool ok = cm->DFAContentModel::validateContent(kids, n, 0, &fail, &mm);
  // reference: a^k b?  with min <= k <= max
  XMLSize_t k = 0; while (k < n && k < NC && c[k].s[0] == 'a') k++;
  bool rest = (k == n) || (k + 1 == n && c[k].s[0] == 'b');
  bool want = rest && k >= (XMLSize_t)mn && (mx == -1 || k <= (XMLSize_t)mx);
  VX_ASSERT(ok == want, "(a{min,max}, b?) accepts exactly a^k b? with min <= k <= max");
  if (ok && n == NC) VX_REACH("longest sequence accepted");
  if (!ok && rest && k >= 1 && k < (XMLSize_t)mn && k == n) VX_REACH("rejected: content ends before minOccurs is reached");
  if (!ok && rest && mx != -1 && k > (XMLSize_t)mx) VX_REACH("rejected: more than maxOccurs");
}
