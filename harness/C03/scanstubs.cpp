// Cuts for C03/attnorm.cpp: error reporting of the scanner and of the validator (message loading, handler dispatch) -> counters.
#include "vx.h"
extern int vx_scan_errors, vx_valid_errors;
extern "C" {
void vx_emit(void*, int, const void*, const void*, const void*, const void*) asm("_ZN11xercesc_4_010XMLScanner9emitErrorENS_7XMLErrs5CodesEPKDsS4_S4_S4_");
void vx_emit(void*, int, const void*, const void*, const void*, const void*) { vx_scan_errors++; }
void vx_vemit(void*, int, const void*, const void*, const void*, const void*) asm("_ZN11xercesc_4_012XMLValidator9emitErrorENS_8XMLValid5CodesEPKDsS4_S4_S4_");
void vx_vemit(void*, int, const void*, const void*, const void*, const void*) { vx_valid_errors++; }
}
