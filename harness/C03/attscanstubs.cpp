// Cuts for C03/attscan.cpp (with C02/crstubs.cpp for getNextChar and C06/nsstubs.cpp for the scanner's error reporting).
#include "vx.h"
#include <xercesc/util/XercesDefs.hpp>
using namespace xercesc;
extern XMLCh vx_in[]; extern unsigned vx_pos;
#ifndef N
#define N 5
#endif
extern "C" {
bool vx_skipquote(void*, XMLCh* q) asm("_ZN11xercesc_4_09ReaderMgr11skipIfQuoteERDs");
bool vx_skipquote(void*, XMLCh* q) { if (vx_pos < N && (vx_in[vx_pos] == '"' || vx_in[vx_pos] == '\'')) { *q = vx_in[vx_pos++]; return true; } return false; }
unsigned long vx_rnum(const void*) asm("_ZNK11xercesc_4_09ReaderMgr19getCurrentReaderNumEv"); unsigned long vx_rnum(const void*) { return 5; }
bool vx_lookspace(void*) asm("_ZN11xercesc_4_09ReaderMgr14lookingAtSpaceEv"); bool vx_lookspace(void*) { return false; }
void vx_vemit(void*, int, const void*, const void*, const void*, const void*) asm("_ZN11xercesc_4_012XMLValidator9emitErrorENS_8XMLValid5CodesEPKDsS4_S4_S4_");
void vx_vemit(void*, int, const void*, const void*, const void*, const void*) {}
}
