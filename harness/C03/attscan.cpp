// C03-P3 / C02: scanning of an attribute value literal (XML 1.0 [10] AttValue, [2] Char, 3.3.3 normalisation; the non-namespace path of the
// scanner): real IGXMLScanner::scanAttValue reading a scripted input of N symbolic units (the reader manager's cursor operations are cut to
// an array cursor, scanEntityRef - reached through the scanner's vtable - to a stub that either delivers the next unit as a referenced
// character or fails).  For EVERY input and every attribute type: the literal is accepted without any error iff it is  quote ... same quote
// with only legal characters (XML Char, complete surrogate pairs - a lead surrogate directly in front of the closing quote included - and no
// literal '<'); end of input inside the literal is reported; the value delivered is the XML 1.0 3.3.3 normalisation (CDATA: literal
// TAB/LF/CR -> space; tokenized: trimmed and collapsed; referenced characters verbatim, referenced spaces collapse like literal ones).
#include "vx.h"
#include "vx_open.h"
#include <xercesc/internal/IGXMLScanner.hpp>
#include <xercesc/internal/DGXMLScanner.hpp>
#include <xercesc/internal/XMLReader.hpp>
#include <xercesc/framework/XMLAttDef.hpp>
#include <xercesc/framework/XMLBuffer.hpp>
#include "vx_close.h"
#ifndef SCANNER
#define SCANNER IGXMLScanner      // -DSCANNER=DGXMLScanner: the DTD-only scanner has its own copy of scanAttValue
#endif
#define VX_STUB_XMLEXCEPTION
#define VX_STUB_XMEMORY
#define VX_STUB_NUMTOTEXT
#include "vx_stubs.hpp"
#ifndef N
#define N 5
#endif
int vx_err_n; int vx_err_code[4]; int vx_addprefix_n; const XMLCh* vx_addprefix_prefix; unsigned vx_addprefix_uri; XMLBuffer* vx_the_buffer; int vx_bids, vx_releases;   // (C06/nsstubs.cpp)
XMLCh vx_in[N + 1]; unsigned vx_pos; bool vx_ent_ok;
struct AttDef : XMLAttDef {
  AttDef(XMLAttDef::AttTypes t, MemoryManager* m) : XMLAttDef(t, XMLAttDef::Implied, m) {}
  const XMLCh* getFullName() const { return 0; } void reset() {}
  bool isSerializable() const { return false; } XProtoType* getProtoType() const { return 0; } void serialize(XSerializeEngine&) {}
};
// '&' : the reference scanner either delivers the next input unit as a referenced (escaped) character or fails, consuming nothing
extern "C" int vx_scanEntityRef(void*, bool, XMLCh* first, XMLCh* second, bool* escaped) {
  *second = 0; *escaped = false;
  if (!vx_ent_ok || vx_pos >= N || vx_in[vx_pos] == 0) return XMLScanner::EntityExp_Failed;
  *first = vx_in[vx_pos++]; *escaped = true; return XMLScanner::EntityExp_Returned;
}
typedef XMLScanner::EntityExpRes (SCANNER::*VxSE)(const bool, XMLCh&, XMLCh&, bool&);
extern "C" { extern const VxSE vx_vslot_vx_scanEntityRef; __attribute__((used)) const VxSE vx_vslot_vx_scanEntityRef = &SCANNER::scanEntityRef; }
static void* vx_scvt[120];
static bool ws(XMLCh c) { return c == 0x20 || c == 0x9 || c == 0xA || c == 0xD; }
static bool xmlchar(XMLCh c) { return c == 0x9 || c == 0xA || c == 0xD || (c >= 0x20 && c <= 0xD7FF) || (c >= 0xE000 && c <= 0xFFFD); }
extern "C" void harness_attscan(void) {
  VxMMFixed<64> mm;
  static VxRaw<SCANNER> sr; SCANNER* sc = &sr.obj; sc->fMemoryManager = &mm; sc->fStandalone = false; sc->fValidate = false; sc->fValidator = 0;
  { VxSE pmf = &SCANNER::scanEntityRef; unsigned long off; memcpy(&off, &pmf, sizeof off); vx_scvt[2 + (off - 1) / 8] = (void*)&vx_scanEntityRef; *(void***)sc = &vx_scvt[2]; }
  static VxRaw<XMLReader> rr; XMLReader* rd = &rr.obj; rd->fgCharCharsTable = XMLChar1_0::fgCharCharsTable1_0; rd->fXMLVersion = XMLReader::XMLV1_0;
  sc->fReaderMgr.fCurReader = rd;
  for (int i = 0; i < N; i++) vx_in[i] = nondet_u16(); vx_in[N] = 0;
  vx_ent_ok = nondet_bool();
  unsigned ty = nondet_u8(); VX_ASSUME(ty >= XMLAttDef::CData && ty <= XMLAttDef::Notation);
  bool haveDef = nondet_bool(); AttDef def((XMLAttDef::AttTypes)ty, &mm); bool cdata = !haveDef || ty == XMLAttDef::CData;
  // (a reference directly behind a lead surrogate is not judged: the reference scanner is a stub here)
  for (int i = 0; i + 1 < N; i++) if (vx_in[i] >= 0xD800 && vx_in[i] <= 0xDBFF) VX_ASSUME(vx_in[i + 1] != '&');
  static const XMLCh nm[] = { 'a', 0 };
  XMLBuffer out(16, &mm);
  bool threw = false, ok = false;
  try { ok = sc->SCANNER::scanAttValue(haveDef ? &def : 0, nm, out); } catch (const XMLException&) { threw = true; }
  // ---- reference
  XMLCh q = vx_in[0]; bool quoted = q == '"' || q == '\'';
  bool closed = false, eof = false, bad = false, lead = false, pend = false; XMLCh ref[N + 1]; XMLSize_t rn = 0;
  unsigned i = 1;
  for (unsigned step = 0; step < N; step++) if (quoted && !closed && !eof && i <= N) {
    XMLCh c = i < N ? vx_in[i] : 0; i++;
    if (c == 0) { eof = true; continue; }
    if (c == q) { if (lead) bad = true; closed = true; continue; }
    bool esc = false;
    if (c == '&') {
      if (!vx_ent_ok || i >= N || vx_in[i] == 0) { lead = false; continue; }      // reference failed: skipped
      c = vx_in[i]; i++; esc = true;
    } else if (c >= 0xD800 && c <= 0xDBFF) { if (lead) bad = true; lead = true; }
    else { if (c >= 0xDC00 && c <= 0xDFFF) { if (!lead) bad = true; } else { if (lead) bad = true; if (!xmlchar(c)) bad = true; } lead = false; }
    if (!esc && c == '<') bad = true;
    if (cdata) { if (!esc && (c == 0x9 || c == 0xA || c == 0xD)) c = 0x20; ref[rn++] = c; }
    else { bool isws = c == 0x20 || (!esc && ws(c)); if (isws) { if (rn > 0) pend = true; } else { if (pend) ref[rn++] = 0x20; pend = false; ref[rn++] = c; } }
  }
  if (!quoted) { VX_ASSERT(!ok && !threw, "no opening quote: not an attribute value"); return; }
  VX_ASSERT(threw == (eof && !closed), "end of input inside the literal is reported (exception)");
  if (closed) {
    VX_ASSERT(ok, "a literal closed by its own quote is scanned to the end");
    VX_ASSERT((vx_err_n != 0) == bad, "errors are reported exactly for illegal characters, incomplete surrogate pairs (also at the closing quote) and a literal '<'");
    VX_ASSERT(out.getLen() == rn, "length of the value = XML 1.0 3.3.3 normalisation");
    const XMLCh* o = out.getRawBuffer();
    for (XMLSize_t k = 0; k < N; k++) if (k < rn && out.getLen() == rn) VX_ASSERT(o[k] == ref[k], "value = XML 1.0 3.3.3 normalisation (literal white space -> space / collapsed; referenced characters verbatim)");
    if (!bad && rn >= 3) VX_REACH("clean literal of three or more characters");
    if (bad && lead) VX_REACH("lead surrogate directly in front of the closing quote reported");
    if (!cdata && rn + 2 <= i - 2) VX_REACH("tokenized value collapsed");
  }
}
