// C03-P2: attribute-value normalisation (XML 1.0 3.3.3) as the scanners perform it before a value reaches SAX/DOM: real
// IGXMLScanner::normalizeAttValue on the intermediate form scanAttValue produces (characters that came from character/entity references are
// escaped by a preceding 0xFFFF so that they are NOT normalised again).  For EVERY intermediate string of <= N units and every attribute
// type: CDATA - each literal TAB/LF/CR becomes one space, referenced characters are kept verbatim, nothing else changes; tokenized types -
// additionally leading/trailing spaces go and runs of spaces become one; a literal '<' is reported (return false) and nothing else is;
// nothing outside the input is read.
#include "vx.h"
#include "vx_open.h"
#include <xercesc/internal/IGXMLScanner.hpp>
#include <xercesc/internal/SGXMLScanner.hpp>
#include <xercesc/internal/XMLReader.hpp>
#include <xercesc/framework/XMLAttDef.hpp>
#include <xercesc/framework/XMLBuffer.hpp>
#include <xercesc/framework/XMLValidator.hpp>
#include "vx_close.h"
#ifndef SCANNER
#define SCANNER IGXMLScanner      // the DTD+schema scanner; -DSCANNER=SGXMLScanner runs the schema-only scanner copy of the same functions
#endif
#define VX_STUB_XMLEXCEPTION
#define VX_STUB_XMEMORY
#include "vx_stubs.hpp"
#ifndef N
#define N 4
#endif
int vx_scan_errors, vx_valid_errors;
struct AttDef : XMLAttDef {
  AttDef(XMLAttDef::AttTypes t, MemoryManager* m) : XMLAttDef(t, XMLAttDef::Implied, m) {}
  const XMLCh* getFullName() const { return 0; } void reset() {}
  bool isSerializable() const { return false; } XProtoType* getProtoType() const { return 0; } void serialize(XSerializeEngine&) {}
};
static bool ws(XMLCh c) { return c == 0x20 || c == 0x9 || c == 0xA || c == 0xD; }
extern "C" void harness_attnorm(void) {
  VxMMFixed<64> mm;
  static VxRaw<SCANNER> sr; SCANNER* sc = &sr.obj;
  static VxRaw<XMLReader> rr; XMLReader* rd = &rr.obj; rd->fgCharCharsTable = XMLChar1_0::fgCharCharsTable1_0;
  sc->fReaderMgr.fCurReader = rd;
  bool standalone = nondet_bool(), validate = nondet_bool();
  sc->fStandalone = standalone; sc->fValidate = validate; sc->fValidator = 0;            // (the validator is only asked to report: cut)
  unsigned ty = nondet_u8(); VX_ASSUME(ty >= XMLAttDef::CData && ty <= XMLAttDef::Notation);
  bool haveDef = nondet_bool(); AttDef def((XMLAttDef::AttTypes)ty, &mm); bool external = nondet_bool(); def.fExternalAttribute = external;
  bool cdata = !haveDef || ty == XMLAttDef::CData;
  // intermediate value: units; esc[i] says unit i came from a reference (written as 0xFFFF, unit)
  XMLSize_t n = nondet_u64(); VX_ASSUME(n <= N);
  XMLCh u[N]; bool esc[N]; static XMLCh in[2 * N + 1]; XMLSize_t k = 0;
  for (int i = 0; i < N; i++) { u[i] = nondet_u16(); esc[i] = nondet_bool(); if ((XMLSize_t)i < n) { VX_ASSUME(u[i] != 0 && (esc[i] || u[i] != 0xFFFF)); if (esc[i]) in[k++] = 0xFFFF; in[k++] = u[i]; } }
  in[k] = 0;
  static const XMLCh nm[] = { 'a', 0 };
  XMLBuffer out(16, &mm);
  bool ok = sc->normalizeAttValue(haveDef ? &def : 0, nm, in, out);
  // reference
  XMLCh ref[N + 1]; XMLSize_t rn = 0; bool bracket = false;
  if (cdata) {
    for (int i = 0; i < N; i++) if ((XMLSize_t)i < n) { XMLCh c = u[i]; if (!esc[i]) { if (c == 0x9 || c == 0xA || c == 0xD) c = 0x20; else if (c == '<') bracket = true; } ref[rn++] = c; }
  } else {
    bool pend = false;
    for (int i = 0; i < N; i++) if ((XMLSize_t)i < n) { XMLCh c = u[i]; if (!esc[i] && c == '<') bracket = true;
      // (a REFERENCED tab / line feed / carriage return is content: only literal white space and #x20 from any origin are collapsed)
      if (ws(c) && (!esc[i] || c == 0x20)) { if (rn > 0) pend = true; } else { if (pend) ref[rn++] = 0x20; pend = false; ref[rn++] = c; } }
  }
  VX_ASSERT(ok == !bracket, "normalisation fails exactly when the value contains a literal '<'");
  VX_ASSERT((vx_scan_errors != 0) == bracket, "a well-formedness error is reported exactly for a literal '<'");
  VX_ASSERT(out.getLen() == rn, "length of the normalised value equals XML 1.0 3.3.3");
  const XMLCh* o = out.getRawBuffer();
  for (XMLSize_t i = 0; i < N; i++) if (i < rn && out.getLen() == rn) VX_ASSERT(o[i] == ref[i], "normalised attribute value equals XML 1.0 3.3.3 (literal white space -> space, referenced characters verbatim, tokenized types collapsed)");
  if (cdata && n == N && esc[0] && u[0] == 0xA) VX_REACH("referenced line feed kept verbatim");
  if (!cdata && rn + 2 <= n) VX_REACH("tokenized value collapsed");
  if (!cdata && n >= 3 && esc[1] && u[1] == 0x9 && rn == n) VX_REACH("referenced tab kept inside a tokenized value");
  if (bracket) VX_REACH("literal '<' reported");
}
