// Cut of the unsynchronised base pool (inline members of XMLStringPool, removed from every TU): see C17/syncpool.cpp.
#include "vx.h"
#include <xercesc/util/XercesDefs.hpp>
#include <xercesc/util/IllegalArgumentException.hpp>
using namespace xercesc;
extern bool vx_held[4]; extern void* vx_sync_pool; extern unsigned vx_const_count, vx_own_cur, vx_const_id, vx_own_id; extern int vx_unprotected;
static const XMLCh VAL[] = { 'v', 0 };
static void touch(void* self) { if (self == vx_sync_pool && !vx_held[1]) vx_unprotected++; }   // mutex #1 is the pool's own (first one made)
extern "C" void vx_ctor(void*, unsigned, void*) asm("_ZN11xercesc_4_013XMLStringPoolC2EjPNS_13MemoryManagerE");
extern "C" void vx_ctor(void*, unsigned, void*) {}
extern "C" void vx_dtor(void*) asm("_ZN11xercesc_4_013XMLStringPoolD2Ev");
extern "C" void vx_dtor(void*) {}
extern "C" unsigned vx_addOrFind(void* self, const XMLCh*) asm("_ZN11xercesc_4_013XMLStringPool9addOrFindEPKDs");
extern "C" unsigned vx_addOrFind(void* self, const XMLCh*) { touch(self); return vx_own_id ? vx_own_id : vx_own_cur; }
extern "C" unsigned vx_getId(void* self, const XMLCh*) asm("_ZNK11xercesc_4_013XMLStringPool5getIdEPKDs");
extern "C" unsigned vx_getId(void* self, const XMLCh*) { touch(self); return vx_own_id; }
extern "C" bool vx_exists(void* self, const XMLCh*) asm("_ZNK11xercesc_4_013XMLStringPool6existsEPKDs");
extern "C" bool vx_exists(void* self, const XMLCh*) { touch(self); return vx_own_id != 0; }
extern "C" const XMLCh* vx_getValueForId(void* self, unsigned) asm("_ZNK11xercesc_4_013XMLStringPool13getValueForIdEj");
extern "C" const XMLCh* vx_getValueForId(void* self, unsigned id) { touch(self);      // as the real one: an id outside the table throws
  if (!id || id >= vx_own_cur) ThrowXML(IllegalArgumentException, XMLExcepts::StrPool_IllegalId);
  return VAL; }
