// Cuts for C17/doctype.cpp: every access path into the shared hidden document asserts that its mutex (#1, the first one made) is held.
#include "vx.h"
#include <xercesc/util/XercesDefs.hpp>
using namespace xercesc;
namespace xercesc_4_0 { class DOMImplementation; }
extern bool vx_held[4]; extern int vx_unprotected, vx_shared_accesses; extern void* vx_hidden_doc; extern void* vx_hidden_doc_iface; extern XMLCh vx_pooled[]; extern DOMImplementation* vx_the_impl;
static void touch(void* doc) { if (doc == vx_hidden_doc || doc == vx_hidden_doc_iface) { vx_shared_accesses++; if (!vx_held[1]) vx_unprotected++; } }
static long vx_arena[4][256]; static int vx_arena_n; static XMLCh vx_clone[4][4]; static int vx_clone_n;
extern "C" {
const XMLCh* vx_pool(void* doc, const XMLCh* in) asm("_ZN11xercesc_4_015DOMDocumentImpl15getPooledStringEPKDs");
const XMLCh* vx_pool(void* doc, const XMLCh* in) { touch(doc); return in; }
XMLCh* vx_clonestr(void* doc, const XMLCh* in);       // reached through the fake vtable of the hidden document (cloneString is virtual)
XMLCh* vx_clonestr(void* doc, const XMLCh* in) { touch(doc); if (!in) return 0; VX_ASSUME(vx_clone_n < 4); XMLCh* r = vx_clone[vx_clone_n++]; r[0] = in[0]; r[1] = 0; return r; }
void* vx_docnew(unsigned long amt, void* doc) asm("_ZnwmPN11xercesc_4_011DOMDocumentE");
void* vx_docnew(unsigned long amt, void* doc) { touch(doc); VX_ASSERT(amt <= sizeof vx_arena[0] && vx_arena_n < 4, "node-map storage within the harness arena"); return vx_arena[vx_arena_n++]; }
void vx_nnm_ctor(void*, void*) asm("_ZN11xercesc_4_019DOMNamedNodeMapImplC1EPNS_7DOMNodeE"); void vx_nnm_ctor(void*, void*) {}
void* vx_getimpl(const XMLCh*) asm("_ZN11xercesc_4_025DOMImplementationRegistry20getDOMImplementationEPKDs"); void* vx_getimpl(const XMLCh*) { return vx_the_impl; }
void vx_domexc(void* e, short code, short, void*) asm("_ZN11xercesc_4_012DOMExceptionC1EssPNS_13MemoryManagerE"); void vx_domexc(void*, short, short, void*) {}
void vx_domexc_d(void*) asm("_ZN11xercesc_4_012DOMExceptionD1Ev"); void vx_domexc_d(void*) {}
}
