// C17-P2: lock discipline of the process-wide hidden document that backs owner-less document-type nodes (real DOMDocumentTypeImpl
// constructors and setPublicId / setSystemId / setInternalSubset for a doctype that has no owner document yet, real XMLMutexLock/XMLMutex,
// real XMLInitializer::initializeDOMDocumentTypeImpl).  The platform mutex primitives are cut to a recorder; every operation that touches the
// shared hidden document - its string arena (cloneString), its name pool (getPooledString), its node allocator (operator new(size, doc)) -
// is cut to a stub that asserts that the document's mutex IS held.  For EVERY operation: all accesses to the shared document happen under
// its mutex, the mutex is not re-acquired, and it is released on exit.  (Lockset discipline: holds for any number of threads.)
#include "vx.h"
#include "vx_open.h"
#include <xercesc/dom/impl/DOMDocumentTypeImpl.hpp>
#include <xercesc/dom/impl/DOMDocumentImpl.hpp>
#include <xercesc/dom/DOMImplementation.hpp>
#include <xercesc/dom/DOMException.hpp>
#include <xercesc/util/XMLInitializer.hpp>
#include <xercesc/util/Mutexes.hpp>
#include <xercesc/util/PlatformUtils.hpp>
#include "vx_close.h"
#define VX_STUB_XMLEXCEPTION
#define VX_STUB_XMEMORY
#include "vx_stubs.hpp"
XMLCh vx_pooled[17];
bool vx_held[4]; int vx_nmutex; int vx_unprotected, vx_shared_accesses; void* vx_hidden_doc; void* vx_hidden_doc_iface;
void* XMLPlatformUtils::makeMutex(MemoryManager*) { return (void*)(long)(++vx_nmutex); }
void XMLPlatformUtils::closeMutex(void*, MemoryManager*) {}
void XMLPlatformUtils::lockMutex(void* h) { VX_ASSERT(!vx_held[(long)h], "a mutex is never acquired while already held (self-deadlock)"); vx_held[(long)h] = true; }
void XMLPlatformUtils::unlockMutex(void* h) { VX_ASSERT(vx_held[(long)h], "only a held mutex is released"); vx_held[(long)h] = false; }
static VxRaw<DOMDocumentImpl> vx_docraw;          // the hidden document: raw storage with a fake vtable serving cloneString (virtual)
extern "C" XMLCh* vx_clonestr(void* doc, const XMLCh* in);
typedef XMLCh* (DOMDocumentImpl::*VxCS)(const XMLCh*);
extern "C" { extern const VxCS vx_vslot_vx_clonestr; __attribute__((used)) const VxCS vx_vslot_vx_clonestr = &DOMDocumentImpl::cloneString; }
static void* vx_docvt[220];
struct Impl : DOMImplementation {
  bool hasFeature(const XMLCh*, const XMLCh*) const { return false; }
  DOMDocumentType* createDocumentType(const XMLCh*, const XMLCh*, const XMLCh*) { return 0; }
  DOMDocument* createDocument(const XMLCh*, const XMLCh*, DOMDocumentType*, MemoryManager* const) { return 0; }
  void* getFeature(const XMLCh*, const XMLCh*) const { return 0; }
  DOMDocument* createDocument(MemoryManager* const) { return (DOMDocument*)&vx_docraw.obj; }
  DOMLSParser* createLSParser(const DOMImplementationLSMode, const XMLCh* const, MemoryManager* const, XMLGrammarPool* const) { return 0; }
  DOMLSSerializer* createLSSerializer(MemoryManager* const) { return 0; } DOMLSInput* createLSInput(MemoryManager* const) { return 0; } DOMLSOutput* createLSOutput(MemoryManager* const) { return 0; }
};
DOMImplementation* vx_the_impl;
extern "C" void harness_doctype(void) {
  VxMM mm; XMLPlatformUtils::fgMemoryManager = &mm;
  vx_hidden_doc = &vx_docraw.obj; vx_hidden_doc_iface = (DOMDocument*)&vx_docraw.obj;
  { VxCS pmf = &DOMDocumentImpl::cloneString; unsigned long off; memcpy(&off, &pmf, sizeof off); vx_docvt[2 + (off - 1) / 8] = (void*)&vx_clonestr; *(void***)&vx_docraw.obj = &vx_docvt[2]; }
  Impl impl; vx_the_impl = &impl;      // (constructed here: static constructors do not run before the harness)
  XMLInitializer::initializeDOMDocumentTypeImpl();                       // creates the mutex (#1) and the hidden document
  static VxRaw<DOMDocumentTypeImpl> tr; static const XMLCh nm[] = { 'd', 0 }, idv[] = { 'i', 0 };
  unsigned op = nondet_u8() % 5; bool nullId = nondet_bool();
  DOMDocumentTypeImpl* t;
  if (op == 0) { t = new (&tr.obj) DOMDocumentTypeImpl((DOMDocument*)0, nm, false); VX_REACH("three-argument constructor"); }
  else {
    t = new (&tr.obj) DOMDocumentTypeImpl((DOMDocument*)0, nm, nullId ? 0 : idv, idv, false);
    VX_ASSERT(vx_shared_accesses >= 6, "the constructor stores name, ids and the three maps in the hidden document");
    if (op == 2) t->setPublicId(idv); else if (op == 3) t->setSystemId(idv); else if (op == 4) t->setInternalSubset(idv);
    if (op == 4) VX_REACH("setInternalSubset on an owner-less doctype");
  }
  VX_ASSERT(vx_unprotected == 0, "the shared hidden document is only touched with its mutex held");
  VX_ASSERT(!vx_held[1] && !vx_held[2], "no mutex remains held afterwards");
  VX_ASSERT(vx_shared_accesses >= 4, "the operations did reach the shared document");
}
