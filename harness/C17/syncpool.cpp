// C17-P1: lock discipline of the synchronised URI string pool handed out by a locked grammar pool (real SynchronizedStringPool.cpp,
// real XMLMutexLock/XMLMutex from Mutexes.cpp).  The platform mutex primitives are cut to a recorder; the inline operations of the
// underlying (unsynchronised) XMLStringPool are cut, in C17/basepool.cpp, to stubs that (a) assert that the pool's own mutex IS held
// whenever the shared, mutable table is touched, (b) require NO lock for the immutable const pool, (c) return arbitrary results.
// Checked for every operation and every combination of stub outcomes: table accesses are protected, the mutex is never acquired
// twice, it is released on every exit, and the ids returned are those a single-threaded unsynchronised pool would give.
#include "vx.h"
#include "vx_open.h"
#include <xercesc/util/SynchronizedStringPool.hpp>
#include <xercesc/util/Mutexes.hpp>
#include <xercesc/util/PlatformUtils.hpp>
#include <xercesc/util/IllegalArgumentException.hpp>
#include "vx_close.h"
#define VX_STUB_XMLEXCEPTION
#define VX_STUB_XMEMORY
#include "vx_stubs.hpp"
bool vx_held[4]; int vx_nmutex; void* vx_sync_pool; void* vx_sync_mutex_handle;
unsigned vx_const_count; unsigned vx_own_cur;           // sizes of the two pools (symbolic, fixed for the run)
unsigned vx_const_id, vx_own_id;                        // what the two tables answer for THE string of this run (0 = not present)
int vx_unprotected;                                     // accesses to the shared table without its mutex
void* XMLPlatformUtils::makeMutex(MemoryManager*) { return (void*)(long)(++vx_nmutex); }
void XMLPlatformUtils::closeMutex(void*, MemoryManager*) {}
void XMLPlatformUtils::lockMutex(void* h) { VX_ASSERT(!vx_held[(long)h], "a mutex is never acquired while already held (self-deadlock)"); vx_held[(long)h] = true; }
void XMLPlatformUtils::unlockMutex(void* h) { VX_ASSERT(vx_held[(long)h], "only a held mutex is released"); vx_held[(long)h] = false; }
static const XMLCh STR[] = { 'u', 0 }; static const XMLCh VAL[] = { 'v', 0 };
// the immutable const pool: a stub subclass answering arbitrary but consistent results; it must never need a lock
struct ConstPool : XMLStringPool {
  ConstPool(MemoryManager* m) : XMLStringPool(109, m) {}
  unsigned int addOrFind(const XMLCh* const) { VX_ASSERT(0, "the const pool is never modified"); return 0; }
  bool exists(const XMLCh* const) const { return vx_const_id != 0; }
  bool exists(const unsigned int id) const { return id >= 1 && id <= vx_const_count; }
  unsigned int getId(const XMLCh* const) const { return vx_const_id; }
  const XMLCh* getValueForId(const unsigned int id) const { if (!id || id > vx_const_count) ThrowXML(IllegalArgumentException, XMLExcepts::StrPool_IllegalId); return VAL; }
  unsigned int getStringCount() const { return vx_const_count; }
};
extern "C" void harness_syncpool(void) {
  VxMM mm;
  vx_const_count = nondet_u32(); VX_ASSUME(vx_const_count <= 1000);
  vx_own_cur = nondet_u32(); VX_ASSUME(vx_own_cur >= 1 && vx_own_cur <= 1000);
  vx_const_id = nondet_u32(); VX_ASSUME(vx_const_id <= vx_const_count);
  vx_own_id = nondet_u32(); VX_ASSUME(vx_own_id < vx_own_cur);
  ConstPool cp(&mm); XMLStringPool* constPool = &cp;
  XMLSynchronizedStringPool sp(constPool, 109, &mm);
  vx_sync_pool = (XMLStringPool*)&sp; sp.fCurId = vx_own_cur;
  unsigned op = nondet_u8() % 6; unsigned r = 0; bool threw = false, inrange = true;
  try {
    if (op == 0) { r = sp.addOrFind(STR);
      VX_ASSERT(r != 0, "addOrFind never returns the illegal id 0");
      if (vx_const_id) VX_ASSERT(r == vx_const_id, "a string of the const pool keeps its const-pool id"); else VX_ASSERT(r > vx_const_count, "a new string gets an id above the const pool's range");
      VX_REACH("addOrFind"); }
    else if (op == 1) { r = sp.getId(STR);
      if (vx_const_id) VX_ASSERT(r == vx_const_id, "getId: const-pool string -> its const-pool id");
      else if (vx_own_id) VX_ASSERT(r == vx_own_id + vx_const_count, "getId: own string -> own id shifted by the const pool size");
      else VX_ASSERT(r == 0, "getId of a string in neither pool is 0 (never a legal id)");
      VX_REACH("getId"); }
    else if (op == 2) { bool e = sp.exists(STR); VX_ASSERT(e == (vx_const_id != 0 || vx_own_id != 0), "exists(string) iff in one of the pools"); }
    else if (op == 3) { unsigned id = nondet_u32(); VX_ASSUME(id <= 3000); bool e = sp.exists(id);
      VX_ASSERT(e == (id >= 1 && id < vx_own_cur + vx_const_count), "exists(id) iff id is in the combined id range"); }
    else if (op == 4) { unsigned id = nondet_u32(); VX_ASSUME(id <= 3000); inrange = (id >= 1 && id < vx_own_cur + vx_const_count);
      (void)sp.getValueForId(id); VX_REACH("getValueForId returned"); }
    else { r = sp.getStringCount(); VX_ASSERT(r == vx_own_cur + vx_const_count - 1, "string count = both pools"); }
  } catch (const XMLException&) { threw = true; }
  VX_ASSERT(!vx_held[1] && !vx_held[2], "no mutex remains held after the operation (normal or exceptional exit)");
  VX_ASSERT(vx_unprotected == 0, "the shared table is only touched with the pool's mutex held");
  if (inrange) VX_ASSERT(!threw, "no exception for in-range arguments"); else { VX_ASSERT(threw, "an id outside both pools is refused"); VX_REACH("getValueForId threw for an id outside the table"); }
}
