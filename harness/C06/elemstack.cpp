// C06-P1: namespace scoping in the element stack.  A script  [addGlobalPrefix]? { addLevel; addPrefix x 0..2 } x K/2  [popTop]? with symbolic prefixes (from "", a, b, c, xml, xmlns) and symbolic URI ids is applied to the REAL ElemStack;
// then for a symbolic prefix the REAL mapPrefixToURI must answer what the in-scope declarations imply:
// innermost binding wins, xml/xmlns fixed, xmlns="" un-declares, unbound default namespace -> empty id, unbound prefix -> unknown.
#include "vx.h"
#include "vx_open.h"
#include <xercesc/internal/ElemStack.hpp>
#include <xercesc/util/StringPool.hpp>
#include <xercesc/util/XMLUni.hpp>
#include "vx_close.h"
#define VX_STUB_XMLEXCEPTION
#include "vx_stubs.hpp"
#ifndef K
#define K 4
#endif
// cut: growth of the element stack beyond its initial 32 levels cannot happen within the bound; reaching it fails the check
void ElemStack::expandStack() { VX_ASSERT(0, "expandStack is not reachable within the bound (depth <= K < 32)"); VX_ASSUME(0); }
enum { EMPTY = 1, UNKNOWN = 2, XMLID = 3, XMLNSID = 4 };
// cut: the prefix string pool (inline addOrFind/getId) is replaced, in C06/poolstub.cpp, by an injective id function over the harness
// alphabet that keeps the real pool's contract: ids > 0, same string -> same id, getId of a never-added string -> 0
extern bool vx_added[8];
extern unsigned vx_pid_of(const XMLCh* s);
static unsigned vx_pid(unsigned k) { return k + 1; }
static const XMLCh P_EMPTY[] = { 0 }, P_A[] = { 'a', 0 }, P_B[] = { 'b', 0 }, P_C[] = { 'c', 0 }, P_XML[] = { 'x', 'm', 'l', 0 }, P_XMLNS[] = { 'x', 'm', 'l', 'n', 's', 0 };
static const XMLCh* pick(unsigned k) { return k == 0 ? P_EMPTY : k == 1 ? P_A : k == 2 ? P_B : k == 3 ? P_C : k == 4 ? P_XML : P_XMLNS; }
struct Bind { unsigned pid, uri; };
struct Level { Bind b[K]; int n; };
extern "C" void harness_elemstack(void) {
  VxMMFixed<272> mm;     // every block 272 bytes: the largest request within the bound is the 32-entry stack (256) plus the XMemory header
  ElemStack es(&mm);
  es.reset(EMPTY, UNKNOWN, XMLID, XMLNSID);
  Level lv[K]; int depth = 0; Bind g[K]; int ng = 0; bool popped = false, shadow = false;
  // script shape: [global binding]? then K/2 times { addLevel; addPrefix x (0..2) } then [popTop]?   (choices, prefixes and URIs symbolic)
  if (nondet_bool()) {
    unsigned pk = nondet_u8() % 4; unsigned uri = nondet_u32(); VX_ASSUME(uri >= 1 && uri <= 9);
    es.addGlobalPrefix(pick(pk), uri); g[ng].pid = vx_pid(pk); g[ng].uri = uri; ng++;
  }
  for (int l = 0; l < K / 2; l++) {
    lv[depth].n = 0; depth++; es.addLevel();
    unsigned n = nondet_u8(); VX_ASSUME(n <= 2);
    for (unsigned i = 0; i < 2; i++) if (i < n) {
      unsigned pk = nondet_u8() % 4; unsigned uri = nondet_u32(); VX_ASSUME(uri >= 1 && uri <= 9);   // user prefixes only: xml/xmlns cannot be declared
      es.addPrefix(pick(pk), uri);
      Level& L = lv[depth - 1]; L.b[L.n].pid = vx_pid(pk); L.b[L.n].uri = uri; L.n++;
    }
  }
  if (nondet_bool()) { depth--; es.popTop(); popped = true; }
  unsigned qk = nondet_u8() % 6; const XMLCh* q = pick(qk); unsigned qid = vx_pid(qk);
  bool unknown = false; unsigned got = es.mapPrefixToURI(q, unknown);
  // reference
  unsigned want = 0; bool wantUnknown = false; bool found = false;
  if (qk == 4) { want = XMLID; found = true; }
  else if (qk == 5) { want = XMLNSID; found = true; }
  else if (qk != 0 && !vx_added[qid]) { want = UNKNOWN; wantUnknown = true; found = true; }   // prefix never declared anywhere
  for (int d = K - 1; d >= 0; d--) if (!found && d < depth)
    for (int i = 0; i < K; i++) if (!found && i < lv[d].n && lv[d].b[i].pid == qid) { want = lv[d].b[i].uri; found = true; if (d < depth - 1) shadow = true; }
  for (int i = 0; i < K; i++) if (!found && i < ng && g[i].pid == qid) { want = g[i].uri; found = true; }
  if (!found) { if (qk == 0) want = EMPTY; else { want = UNKNOWN; wantUnknown = true; } }
  VX_ASSERT(got == want, "mapPrefixToURI returns the URI of the nearest enclosing declaration (xml/xmlns fixed, default -> empty, unbound -> unknown)");
  VX_ASSERT(unknown == wantUnknown, "unknown flag set exactly for unbound non-default prefixes");
  VX_ASSERT(es.fStackTop == (XMLSize_t)depth, "stack depth follows addLevel/popTop");
  if (popped && found && want >= 5) VX_REACH("binding resolved after a pop");
  if (shadow) VX_REACH("binding found in an outer level");
  if (wantUnknown) VX_REACH("unbound prefix");
}
