// C06-P2: processing of a namespace declaration attribute (Namespaces in XML 1.0/1.1, sections 2.2 / 3 / 6.1 and the namespace constraints
// "Reserved Prefixes and Namespace Names", "No Prefix Undeclaring"): real IGXMLScanner::updateNSMap + normalizeAttRawValue.
// The buffer manager, the URI string pool and ElemStack::addPrefix (verified on its own in C06/elemstack) are cut to recorders.
// For EVERY declaration name among xmlns, xmlns:p, xmlns:xml, xmlns:xmlns and EVERY value among "", an ordinary URI, the XML namespace name
// and the xmlns namespace name (+ one symbolic character, + literal white space), XML 1.0 and 1.1:
//   - the prefix (or the default namespace) is bound, exactly once, to the id of the normalised value - in particular xmlns="" binds the
//     default namespace to the empty name (un-declaration), it is not skipped;
//   - exactly the errors the Recommendation names are reported: xmlns as a prefix, xml bound to another name, another prefix bound to the
//     XML name, anything bound to the xmlns name, and prefix un-declaration in XML 1.0 (allowed in 1.1).
#include "vx.h"
#include "vx_open.h"
#include <xercesc/internal/IGXMLScanner.hpp>
#include <xercesc/internal/SGXMLScanner.hpp>
#include <xercesc/internal/DGXMLScanner.hpp>
#include <xercesc/internal/XMLReader.hpp>
#include <xercesc/framework/XMLBuffer.hpp>
#include <xercesc/framework/XMLBufferMgr.hpp>
#include <xercesc/util/StringPool.hpp>
#include <xercesc/util/XMLUni.hpp>
#include "vx_close.h"
#ifndef SCANNER
#define SCANNER IGXMLScanner      // the DTD+schema scanner; -DSCANNER=SGXMLScanner runs the schema-only scanner copy of the same functions
#endif
#define VX_STUB_XMLEXCEPTION
#define VX_STUB_XMEMORY
#include "vx_stubs.hpp"
int vx_err_n; int vx_err_code[4];                       // errors reported through XMLScanner::emitError
int vx_addprefix_n; const XMLCh* vx_addprefix_prefix; unsigned vx_addprefix_uri;
XMLBuffer* vx_the_buffer; int vx_bids, vx_releases;
static XMLCh vx_pool_seen[48]; static int vx_pool_calls;
struct UriPool : XMLStringPool {
  UriPool(MemoryManager* m) : XMLStringPool(3, m) {}
  unsigned int addOrFind(const XMLCh* const s) { vx_pool_calls++; int i = 0; for (; i < 47 && s[i]; i++) vx_pool_seen[i] = s[i]; vx_pool_seen[i] = 0; return 77; }
  bool exists(const XMLCh* const) const { return false; } bool exists(const unsigned int) const { return false; }
  void flushAll() {} unsigned int getId(const XMLCh* const) const { return 0; } const XMLCh* getValueForId(const unsigned int) const { return 0; }
  unsigned int getStringCount() const { return 0; }
};
static bool eq(const XMLCh* a, const XMLCh* b) { for (int i = 0; i < 48; i++) { if (a[i] != b[i]) return false; if (!a[i]) return true; } return true; }
static bool seen(int code) { for (int i = 0; i < 4; i++) if (i < vx_err_n && vx_err_code[i] == code) return true; return false; }
extern "C" void harness_nsdecl(void) {
  VxMMFixed<112> mm;
  static VxRaw<SCANNER> sr; SCANNER* sc = &sr.obj;
  static VxRaw<XMLReader> rr; XMLReader* rd = &rr.obj; rd->fgCharCharsTable = XMLChar1_0::fgCharCharsTable1_0;
  sc->fReaderMgr.fCurReader = rd;
  bool v11 = nondet_bool(); sc->fXMLVersion = v11 ? XMLReader::XMLV1_1 : XMLReader::XMLV1_0;
  UriPool pool(&mm); sc->fURIStringPool = &pool;
  XMLBuffer buf(50, &mm); vx_the_buffer = &buf;
  // declaration name
  static const XMLCh n0[] = { 'x','m','l','n','s',0 }, n1[] = { 'x','m','l','n','s',':','p',0 }, n2[] = { 'x','m','l','n','s',':','x','m','l',0 },
                     n3[] = { 'x','m','l','n','s',':','x','m','l','n','s',0 };
  unsigned nk = nondet_u8() % 4; const XMLCh* name = nk == 0 ? n0 : nk == 1 ? n1 : nk == 2 ? n2 : n3;
  // value: kind 0 "", 1 one symbolic non-space character, 2 XML namespace name, 3 xmlns namespace name, 4 literal TAB (normalised to one space)
  unsigned vk = nondet_u8() % 5; static XMLCh val[48]; XMLCh want[48]; XMLCh c1 = nondet_u16();
  VX_ASSUME(c1 != 0 && c1 != 0xFFFF && c1 != '<' && c1 != 0x20 && c1 != 0x9 && c1 != 0xA && c1 != 0xD);
  const XMLCh* src = vk == 2 ? XMLUni::fgXMLURIName : vk == 3 ? XMLUni::fgXMLNSURIName : 0;
  int vl = 0;
  if (src) { for (; vl < 47 && src[vl]; vl++) { val[vl] = src[vl]; want[vl] = src[vl]; } }
  else if (vk == 1) { val[0] = c1; want[0] = c1; vl = 1; }
  else if (vk == 4) { val[0] = 0x9; want[0] = 0x20; vl = 1; }
  val[vl] = 0; want[vl] = 0;
#ifdef SCANNER_DG
  // the DTD scanner's variant takes (prefix, local part, already normalised value); its callers pass "" as local part for xmlns="..."
  VX_ASSUME(vk != 4);
  static const XMLCh xmlnsStr[] = { 'x','m','l','n','s',0 };
  sc->updateNSMap(nk == 0 ? XMLUni::fgZeroLenString : xmlnsStr, nk == 0 ? XMLUni::fgZeroLenString : name + 6, val);
#else
  sc->updateNSMap(name, val);
#endif
  // ---- binding
  VX_ASSERT(vx_addprefix_n == 1, "the declaration binds its prefix exactly once (also for an empty value: un-declaration is a binding to the empty name)");
  VX_ASSERT(vx_pool_calls == 1 && eq(vx_pool_seen, want), "the namespace name interned is the normalised attribute value");
  if (vx_addprefix_n == 1) {
    VX_ASSERT(vx_addprefix_uri == 77, "the prefix is bound to the id the URI pool gave for this value");
    const XMLCh* wp = nk == 0 ? XMLUni::fgZeroLenString : name + 6;
    VX_ASSERT(eq(vx_addprefix_prefix, wp), "the bound prefix is the local part of the declaration name (empty for xmlns)");
  }
#ifndef SCANNER_DG
  VX_ASSERT(vx_bids == 1 && vx_releases == 1, "the scratch buffer is returned to the buffer manager");
#endif
  // ---- namespace constraints
  bool prefixed = nk != 0, isXml = nk == 2, isXmlns = nk == 3, empty = vl == 0, xmlUri = vk == 2, xmlnsUri = vk == 3;
  VX_ASSERT(seen(XMLErrs::NoUseOfxmlnsAsPrefix) == isXmlns, "the prefix xmlns must not be declared");
  VX_ASSERT(seen(XMLErrs::PrefixXMLNotMatchXMLURI) == (isXml && !xmlUri), "the prefix xml can only be bound to the XML namespace name");
  VX_ASSERT(seen(XMLErrs::XMLURINotMatchXMLPrefix) == (xmlUri && !isXml), "no other prefix (nor the default namespace) can be bound to the XML namespace name");
  VX_ASSERT(seen(XMLErrs::NoUseOfxmlnsURI) == xmlnsUri, "nothing can be bound to the xmlns namespace name");
  VX_ASSERT(seen(XMLErrs::NoEmptyStrNamespace) == (prefixed && empty && !v11), "a prefix can be un-declared in Namespaces 1.1 only");
  VX_ASSERT(!seen(XMLErrs::BracketInAttrValue), "no other error");
  if (nk == 0 && empty) VX_REACH("default namespace un-declared");
  if (isXml && xmlUri && vx_err_n == 0) VX_REACH("xml bound to its own name: no error");
  if (prefixed && empty && v11 && vx_err_n == (isXmlns ? 1 : isXml ? 1 : 0)) VX_REACH("prefix un-declared in 1.1");
}
