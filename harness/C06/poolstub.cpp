// Replacement for the inline XMLStringPool::addOrFind / getId (the originals are removed from every TU by the cut step).
#include "vx.h"
#include <xercesc/util/XercesDefs.hpp>
using namespace xercesc;
bool vx_added[8];
unsigned vx_pid_of(const XMLCh* s) {            // "" a b c xml xmlns  ->  1..6  (must agree with vx_pid(k) = k+1 in the harness)
  if (!s[0]) return 1;
  if (s[0] == 'a') return 2; if (s[0] == 'b') return 3; if (s[0] == 'c') return 4;
  if (s[0] == 'x' && s[1] == 'm' && s[2] == 'l' && !s[3]) return 5;
  return 6;
}
extern "C" unsigned vx_addOrFind(void*, const XMLCh* s) asm("_ZN11xercesc_4_013XMLStringPool9addOrFindEPKDs");
extern "C" unsigned vx_addOrFind(void*, const XMLCh* s) { unsigned i = vx_pid_of(s); vx_added[i] = true; return i; }
extern "C" unsigned vx_getId(void*, const XMLCh* s) asm("_ZNK11xercesc_4_013XMLStringPool5getIdEPKDs");
extern "C" unsigned vx_getId(void*, const XMLCh* s) { unsigned i = vx_pid_of(s); return vx_added[i] ? i : 0; }
// the pool object itself is never built: its constructor/destructor are plain functions under the real symbols (asm labels), so that
// neither the class's vtable nor its virtual member functions enter the closure (StringPool.cpp is not linked)
extern "C" void vx_pool_ctor(void*, unsigned, void*) asm("_ZN11xercesc_4_013XMLStringPoolC1EjPNS_13MemoryManagerE");
extern "C" void vx_pool_ctor(void*, unsigned, void*) {}
extern "C" void vx_pool_dtor(void*) asm("_ZN11xercesc_4_013XMLStringPoolD1Ev");
extern "C" void vx_pool_dtor(void*) {}
