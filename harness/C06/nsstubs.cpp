// Cuts for C06/nsdecl.cpp: scanner error reporting, buffer manager, ElemStack::addPrefix -> recorders.
#include "vx.h"
#include <xercesc/util/XercesDefs.hpp>
namespace xercesc_4_0 { class XMLBuffer; }
using namespace xercesc;
extern int vx_err_n; extern int vx_err_code[4]; extern int vx_addprefix_n; extern const XMLCh* vx_addprefix_prefix; extern unsigned vx_addprefix_uri;
extern XMLBuffer* vx_the_buffer; extern int vx_bids, vx_releases;
extern "C" {
void vx_emit(void*, int code, const void*, const void*, const void*, const void*) asm("_ZN11xercesc_4_010XMLScanner9emitErrorENS_7XMLErrs5CodesEPKDsS4_S4_S4_");
void vx_emit(void*, int code, const void*, const void*, const void*, const void*) { if (vx_err_n < 4) vx_err_code[vx_err_n] = code; vx_err_n++; }
void vx_emit0(void*, int code) asm("_ZN11xercesc_4_010XMLScanner9emitErrorENS_7XMLErrs5CodesE");
void vx_emit0(void*, int code) { if (vx_err_n < 4) vx_err_code[vx_err_n] = code; vx_err_n++; }
XMLBuffer* vx_bid(void*) asm("_ZN11xercesc_4_012XMLBufferMgr11bidOnBufferEv");
XMLBuffer* vx_bid(void*) { vx_bids++; return vx_the_buffer; }
void vx_release(void*, XMLBuffer*) asm("_ZN11xercesc_4_012XMLBufferMgr13releaseBufferERNS_9XMLBufferE");
void vx_release(void*, XMLBuffer* b) { VX_ASSERT(b == vx_the_buffer, "the buffer released is the one that was handed out"); vx_releases++; }
void vx_addPrefix(void*, const XMLCh* p, unsigned uri) asm("_ZN11xercesc_4_09ElemStack9addPrefixEPKDsj");
void vx_addPrefix(void*, const XMLCh* p, unsigned uri) { vx_addprefix_n++; vx_addprefix_prefix = p; vx_addprefix_uri = uri; }
}
// base-class constructor/destructor of the URI pool stub (the real ones build hash tables that are never used here)
extern "C" void vx_spctor(void*, unsigned, void*) asm("_ZN11xercesc_4_013XMLStringPoolC2EjPNS_13MemoryManagerE");
extern "C" void vx_spctor(void*, unsigned, void*) {}
extern "C" void vx_spdtor(void*) asm("_ZN11xercesc_4_013XMLStringPoolD2Ev");
extern "C" void vx_spdtor(void*) {}
