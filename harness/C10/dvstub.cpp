// DatatypeValidator base constructor/destructor as plain functions (DatatypeValidator.cpp with its facet/regex machinery is not linked)
#include "vx.h"
extern "C" {
void vx_dv_ctor(void*, void*, void*, int, int, void*) asm("_ZN11xercesc_4_017DatatypeValidatorC2EPS0_PNS_14RefHashTableOfINS_12KVStringPairENS_12StringHasherEEEiNS0_13ValidatorTypeEPNS_13MemoryManagerE");
void vx_dv_ctor(void*, void*, void*, int, int, void*) {}
void vx_dv_dtor(void*) asm("_ZN11xercesc_4_017DatatypeValidatorD2Ev");
void vx_dv_dtor(void*) {}
}
