// C10-P1: identity-constraint tuples are compared in the VALUE space (real ICValueHasher::isDuplicateOf / equals / getHashVal, real FieldValueMap).
// Datatype validators are stub subclasses whose value space is an abstraction (a value = the case-folded first character for the
// "case-insensitive" family, the first character itself otherwise) and whose derivation chains are SYMBOLIC (each validator's base is
// chosen by the solver among the earlier ones or none).  For every pair of tuples of <= 2 fields:
//   equal  <=>  same arity and, field by field, both empty with the same type / both non-empty, types related through a common ancestor
//               and equal values under it;   and   equals(a,b) => getHashVal(a) == getHashVal(b)   (hash consistency).
#include "vx.h"
#include "vx_open.h"
#include <xercesc/validators/schema/identity/ValueStore.hpp>
#include <xercesc/validators/schema/identity/FieldValueMap.hpp>
#include <xercesc/validators/datatype/DatatypeValidator.hpp>
#include <xercesc/util/XMLString.hpp>
#include "vx_close.h"
#define VX_STUB_XMLEXCEPTION
#include "vx_stubs.hpp"
static bool fold_all;     // whether every type family is case-insensitive (symbolic)
static XMLCh val_of(const XMLCh* s) { XMLCh c = s[0]; if (fold_all && c >= 'A' && c <= 'Z') c = (XMLCh)(c - 'A' + 'a'); return c; }
struct StubDV : DatatypeValidator {
  StubDV() : DatatypeValidator(0, 0, 0, DatatypeValidator::String, 0) {}
  const RefArrayVectorOf<XMLCh>* getEnumString() const { return 0; }
  void validate(const XMLCh* const, ValidationContext* const, MemoryManager* const) {}
  int compare(const XMLCh* const a, const XMLCh* const b, MemoryManager* const) { XMLCh x = val_of(a), y = val_of(b); return x == y ? 0 : (x < y ? -1 : 1); }
  DatatypeValidator* newInstance(RefHashTableOf<KVStringPair>* const, RefArrayVectorOf<XMLCh>* const, const int, MemoryManager* const) { return 0; }
  const XMLCh* getCanonicalRepresentation(const XMLCh* const raw, MemoryManager* const mm, bool) const {
    static XMLCh canon[4][2]; static unsigned nx; XMLCh* r = canon[nx & 3]; nx++; r[0] = getBaseValidator() ? raw[0] : val_of(raw); r[1] = 0; return r; }      // static storage: the hasher's deallocate() is a no-op in this harness
    // (only a ROOT type's canonical form is canonical for the value space: a derived type may spell equal values differently, as xs:integer "7"
    //  vs xs:decimal "7.0" - so hashing must go through the root type, which is what equality is decided under)
  bool isSerializable() const { return false; } XProtoType* getProtoType() const { return 0; } void serialize(XSerializeEngine&) {}
};
#define NDV 3
extern "C" void harness_tuple(void) {
  struct NoHeap : MemoryManager { void* allocate(XMLSize_t) { VX_ASSERT(0, "no heap allocation is reachable in this harness"); return 0; } void deallocate(void*) {} MemoryManager* getExceptionMemoryManager() { return this; } } mm;
  XMLPlatformUtils::fgMemoryManager = &mm;
  fold_all = nondet_bool();
  static StubDV dv[NDV];
  for (int i = 0; i < NDV; i++) { unsigned b = nondet_u8(); VX_ASSUME(b <= (unsigned)i); dv[i].fBaseValidator = b == 0 ? 0 : &dv[b - 1]; }    // symbolic derivation forest
  ICValueHasher h(&mm);
  // ---- one field pair
  unsigned k1 = nondet_u8() % (NDV + 1), k2 = nondet_u8() % (NDV + 1);       // NDV = "no validator"
  DatatypeValidator* d1 = k1 < NDV ? &dv[k1] : 0; DatatypeValidator* d2 = k2 < NDV ? &dv[k2] : 0;
  XMLCh v1[2] = { nondet_u16(), 0 }, v2[2] = { nondet_u16(), 0 };
  bool dup = h.isDuplicateOf(d1, v1, d2, v2);
  // reference
  bool related = false; DatatypeValidator* anc = 0;
  for (DatatypeValidator* a = d1; a && !related; a = a->fBaseValidator) for (DatatypeValidator* b = d2; b; b = b->fBaseValidator) if (a == b) { related = true; anc = a; break; }
  bool e1 = v1[0] == 0, e2 = v2[0] == 0; bool want;
  if (!d1 || !d2) want = (v1[0] == v2[0]);
  else if (e1 && e2) want = (d1 == d2);
  else if (e1 || e2) want = false;
  else want = related && val_of(v1) == val_of(v2);
  VX_ASSERT(dup == want, "two field values are duplicates iff equal in the value space of their nearest common ancestor type (string equality without types; empties only with the same type)");
  if (want && d1 != d2 && d1 && d2) VX_REACH("equal values of different but related types");
  if (!want && d1 && d2 && !related && !e1 && !e2 && val_of(v1) == val_of(v2)) VX_REACH("same lexical value, unrelated types");
  // ---- tuples of two fields through the real FieldValueMap and equals()/getHashVal()
  // the two tuples: FieldValueMap objects built field by field over static typed arrays (no heap)
  static long f1[2], f2[2];                               // IC_Field identities
  XMLCh w1[2] = { nondet_u16(), 0 }, w2[2] = { nondet_u16(), 0 };
  VX_ASSUME(v1[0] && v2[0] && w1[0] && w2[0] && d1 && d2);   // the hash-consistency claim is about typed, non-empty fields
  bool two = nondet_bool(); XMLSize_t cnt = two ? 2 : 1;
  static IC_Field* fa[2]; static DatatypeValidator* va[2]; static XMLCh* sa[2]; static IC_Field* fb[2]; static DatatypeValidator* vb[2]; static XMLCh* sb[2];
  fa[0] = fb[0] = (IC_Field*)f1; fa[1] = fb[1] = (IC_Field*)f2; va[0] = va[1] = d1; vb[0] = vb[1] = d2; sa[0] = v1; sa[1] = w1; sb[0] = v2; sb[1] = w2;
  static VxRaw<ValueVectorOf<IC_Field*> > fva, fvb; static VxRaw<ValueVectorOf<DatatypeValidator*> > vva, vvb; static VxRaw<RefArrayVectorOf<XMLCh> > sva, svb;
  fva.obj.fCurCount = fvb.obj.fCurCount = vva.obj.fCurCount = vvb.obj.fCurCount = cnt; sva.obj.fCurCount = svb.obj.fCurCount = cnt;
  fva.obj.fMaxCount = fvb.obj.fMaxCount = vva.obj.fMaxCount = vvb.obj.fMaxCount = 2; sva.obj.fMaxCount = svb.obj.fMaxCount = 2;
  fva.obj.fElemList = fa; fvb.obj.fElemList = fb; vva.obj.fElemList = va; vvb.obj.fElemList = vb; sva.obj.fElemList = sa; svb.obj.fElemList = sb;
  static VxRaw<FieldValueMap> ar, br; FieldValueMap& a = ar.obj; FieldValueMap& b = br.obj;
  a.fFields = &fva.obj; a.fValidators = &vva.obj; a.fValues = &sva.obj; a.fMemoryManager = &mm; b.fFields = &fvb.obj; b.fValidators = &vvb.obj; b.fValues = &svb.obj; b.fMemoryManager = &mm;
  bool eq = h.equals(&a, &b);
  bool wantEq = want && (!two || (related && val_of(w1) == val_of(w2)));
  VX_ASSERT(eq == wantEq, "two tuples are equal iff every field pair is a duplicate");
  if (eq) { VX_ASSERT(h.getHashVal(&a, 29) == h.getHashVal(&b, 29), "equal tuples have equal hash values (value-space hashing through the canonical form of the root type)"); VX_REACH("equal two-field tuples"); }
}
