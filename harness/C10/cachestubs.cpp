// Cuts for C10/cachemerge.cpp: containers and ValueStore::append -> recorders with scripted answers.
#include "vx.h"
extern bool vx_stack_empty; extern void* vx_oldmap; extern int vx_pops; extern int vx_enum_n, vx_enum_pos; extern void* vx_enum_store[2]; extern void* vx_cur_answer[2];
extern int vx_put_n; extern void* vx_put_key[2]; extern void* vx_put_val[2]; extern void* vx_put_map[2];
extern int vx_app_n; extern void* vx_app_this[2]; extern const void* vx_app_arg[2]; extern int vx_mapdtors; extern void* vx_mapdtor_obj; extern void* vx_curmap; extern void* vx_ic_of[2];
#define H "_ZN11xercesc_4_014RefHashTableOfINS_10ValueStoreENS_9PtrHasherEE"
#define EN "_ZN11xercesc_4_024RefHashTableOfEnumeratorINS_10ValueStoreENS_9PtrHasherEE"
#define ENK "_ZNK11xercesc_4_024RefHashTableOfEnumeratorINS_10ValueStoreENS_9PtrHasherEE"
#define ST "_ZN11xercesc_4_010RefStackOfINS_14RefHashTableOfINS_10ValueStoreENS_9PtrHasherEEEE"
extern "C" {
bool vx_empty(void*) asm(ST "5emptyEv"); bool vx_empty(void*) { return vx_stack_empty; }
void* vx_pop(void*) asm(ST "3popEv"); void* vx_pop(void*) { vx_pops++; return vx_oldmap; }
void vx_enctor(void*, void* map, bool, void*) asm(EN "C2EPNS_14RefHashTableOfIS1_S2_EEbPNS_13MemoryManagerE"); void vx_enctor(void*, void* map, bool, void*) { VX_ASSERT(map == vx_oldmap, "the popped map is the one enumerated"); vx_enum_pos = 0; }
void vx_endtor(void*) asm(EN "D2Ev"); void vx_endtor(void*) {}
bool vx_more(const void*) asm(ENK "15hasMoreElementsEv"); bool vx_more(const void*) { return vx_enum_pos < vx_enum_n; }
void* vx_next(void*) asm(EN "11nextElementEv"); void* vx_next(void*) { VX_ASSUME(vx_enum_pos < 2); return vx_enum_store[vx_enum_pos++]; }
void* vx_get(void* map, const void* key) asm(H "3getEPKv");
void* vx_get(void* map, const void* key) { VX_ASSERT(map == vx_curmap, "look-ups go to the enclosing scope's map"); int k = vx_enum_pos - 1; VX_ASSUME(k >= 0 && k < 2); VX_ASSERT(key == vx_ic_of[k], "looked up under the constraint of the store at hand"); return vx_cur_answer[k]; }
void vx_put(void* map, void* key, void* val) asm(H "3putEPvPS1_"); void vx_put(void* map, void* key, void* val) { if (vx_put_n < 2) { vx_put_map[vx_put_n] = map; vx_put_key[vx_put_n] = key; vx_put_val[vx_put_n] = val; } vx_put_n++; }
void vx_mapdtor(void* m) asm(H "D2Ev"); void vx_mapdtor(void* m) { vx_mapdtors++; vx_mapdtor_obj = m; }
void vx_append(void* self, const void* other) asm("_ZN11xercesc_4_010ValueStore6appendEPKS0_"); void vx_append(void* self, const void* other) { if (vx_app_n < 2) { vx_app_this[vx_app_n] = self; vx_app_arg[vx_app_n] = other; } vx_app_n++; }
}
