// C10-P2: scoping of identity-constraint tables at the end of an element (real ValueStoreCache::endElement): the tuples collected for a
// constraint in a nested scope must end up in the table that stays reachable (the enclosing scope's map), never in the one that is thrown
// away.  The hash tables, their enumerator, the map stack and ValueStore::append are cut to recorders (C10/cachestubs.cpp); the popped map
// enumerates K <= 2 stores with symbolic constraints, the enclosing map answers arbitrarily whether it already has a store for a constraint.
// For EVERY combination: a store whose constraint is new to the enclosing map is registered there under its constraint; otherwise ITS
// tuples are appended to the enclosing map's store (receiver = the store that stays, argument = the store of the popped map); the popped
// map is deleted exactly once; nothing happens on an empty stack.
#include "vx.h"
#include "vx_open.h"
#include <xercesc/validators/schema/identity/ValueStoreCache.hpp>
#include <xercesc/validators/schema/identity/ValueStore.hpp>
#include "vx_close.h"
#define VX_STUB_XMLEXCEPTION
#define VX_STUB_XMEMORY
#include "vx_stubs.hpp"
// recorders / scripted answers shared with the stubs
bool vx_stack_empty; void* vx_oldmap; int vx_pops;
int vx_enum_n, vx_enum_pos; void* vx_enum_store[2];
void* vx_cur_answer[2];                 // what the enclosing map holds for the constraint of store k (0 = nothing)
int vx_put_n; void* vx_put_key[2]; void* vx_put_val[2]; void* vx_put_map[2];
int vx_app_n; void* vx_app_this[2]; const void* vx_app_arg[2];
int vx_mapdtors; void* vx_mapdtor_obj; void* vx_curmap; void* vx_ic_of[2];
extern "C" void harness_cachemerge(void) {
  VxMM mm;
  static VxRaw<ValueStoreCache> cr; ValueStoreCache* c = &cr.obj;
  static long stackobj[4], curmap[4], ic0[2], ic1[2];
  void* oldmap = malloc(32); VX_ASSUME(oldmap != 0);        // identity only; released by operator delete after the (cut) destructor
  static VxRaw<ValueStore> s0, s1, k0, k1;          // stores of the popped map (s*) and of the enclosing map (k*)
  c->fMemoryManager = &mm; c->fGlobalMapStack = (RefStackOf<RefHashTableOf<ValueStore, PtrHasher> >*)stackobj;
  c->fGlobalICMap = (RefHashTableOf<ValueStore, PtrHasher>*)curmap; vx_curmap = curmap; vx_oldmap = oldmap;
  vx_stack_empty = nondet_bool();
  vx_enum_n = nondet_u8() % 3;
  bool sameIC = nondet_bool();
  s0.obj.fIdentityConstraint = (IdentityConstraint*)ic0; s1.obj.fIdentityConstraint = (IdentityConstraint*)(sameIC ? ic0 : ic1);
  vx_ic_of[0] = ic0; vx_ic_of[1] = sameIC ? ic0 : ic1;
  vx_enum_store[0] = &s0.obj; vx_enum_store[1] = &s1.obj;
  bool has0 = nondet_bool(), has1 = nondet_bool();
  vx_cur_answer[0] = has0 ? (void*)&k0.obj : 0; vx_cur_answer[1] = has1 ? (void*)&k1.obj : 0;
  c->endElement();
  if (vx_stack_empty) { VX_ASSERT(vx_pops == 0 && vx_put_n == 0 && vx_app_n == 0 && vx_mapdtors == 0, "nothing happens when no scope is open"); VX_REACH("empty stack"); return; }
  VX_ASSERT(vx_pops == 1 && vx_mapdtors == 1 && vx_mapdtor_obj == (void*)oldmap, "the popped map is deleted exactly once");
  int puts = 0, apps = 0;
  for (int k = 0; k < 2; k++) if (k < vx_enum_n) {
    bool has = k == 0 ? has0 : has1;
    if (!has) { VX_ASSERT(puts < vx_put_n && vx_put_map[puts] == (void*)curmap && vx_put_key[puts] == vx_ic_of[k] && vx_put_val[puts] == vx_enum_store[k],
                          "a store whose constraint is new to the enclosing scope is registered there under its constraint"); puts++; }
    else { VX_ASSERT(apps < vx_app_n && vx_app_this[apps] == vx_cur_answer[k] && vx_app_arg[apps] == (const void*)vx_enum_store[k],
                     "the tuples of the ending scope are appended INTO the store of the enclosing scope (the one that stays reachable)"); apps++; }
  }
  VX_ASSERT(vx_put_n == puts && vx_app_n == apps, "nothing else is registered or appended");
  if (apps == 2) VX_REACH("two stores merged into the enclosing scope");
  if (puts == 1 && apps == 1) VX_REACH("one registered, one merged");
}
