// XMLReader buffer layer (real refreshCharBuffer / xcodeMoreChars / refreshRawBuffer / handleEOL / getNextChar), instantiated through the
// XERCES_VERIF_HOOKS size hook with a CHARBUF-character / RAWBUF-byte window so that every refill boundary falls inside a short input.
//   harness_reader_chunks (C04-P1, C01-P1): N symbolic bytes reach the reader through a stream that returns a SYMBOLIC number of bytes (>= 1)
//     per read, with symbolic low-water mark, are decoded by a fixed-width two-byte decoder stub (transcoder contract) and drained through getNextChar.  Asserted: the characters,
//     line/column and outcome equal a reference computed from the WHOLE byte string (decode + end-of-line normalisation) - hence do not depend
//     on the chunking; reader representation invariant after every call; CBMC bounds/pointer checks on every access.
//   harness_reader_eol (C03-P1): end-of-line normalisation (XML 1.0 2.11 / XML 1.1) and line/column tracking against a reference.
#include "vx.h"
#include "vx_open.h"
#include <xercesc/internal/XMLReader.hpp>
#include <xercesc/util/BinInputStream.hpp>
#include <xercesc/util/TransService.hpp>
#include "vx_close.h"
#define VX_STUB_XMLEXCEPTION
#define VX_STUB_XMLTRANSCODER
#define VX_STUB_XMEMORY
#define VX_STUB_NUMTOTEXT
#include "vx_stubs.hpp"
#ifndef N
#define N 4
#endif
#ifndef UNIT
#define UNIT 2      // bytes per character of the stub decoder (3: a unit needs up to two top-ups when the stream delivers single bytes)
#endif
static XMLByte g_in[N]; static XMLSize_t g_n;
// Stubs write through TYPED lvalues of the reader (r->fRawByteBuf[i], r->fCharBuf[i]) instead of through the raw pointers they are handed:
// CBMC resolves a store through a pointer with symbolic offset into a struct only as a byte-level update of the whole object.
static XMLReader* g_reader;
struct Stream : BinInputStream {
  XMLSize_t pos; bool chunked;
  Stream(bool c) : pos(0), chunked(c) {}
  XMLFilePos curPos() const { return pos; }
  XMLSize_t readBytes(XMLByte* const to, const XMLSize_t max) {
    XMLSize_t left = g_n - pos; XMLSize_t k = left < max ? left : max;
    if (chunked && k > 1) { XMLSize_t c = nondet_u64(); VX_ASSUME(c >= 1 && c <= k); k = c; }      // any split of the byte stream into reads
    XMLSize_t at = (XMLSize_t)(to - g_reader->fRawByteBuf);
    VX_ASSERT(at <= XMLReader::kRawBufSize && max <= XMLReader::kRawBufSize - at, "the reader asks the stream only for bytes that fit its raw buffer");
    for (XMLSize_t i = 0; i < N; i++) if (i < k) g_reader->fRawByteBuf[at + i] = g_in[pos + i];
    pos += k; return k;
  }
  const XMLCh* getContentType() const { return 0; }
};
// fixed-width two-byte little-endian decoder with the XMLTranscoder contract (stops before an incomplete trailing unit); the real transcoders
// are verified on their own in C05 - here the subject is the reader's refill logic around a decoder whose units can be split by a read
struct Dec2 : XMLTranscoder {
  Dec2(MemoryManager* m) : XMLTranscoder(0, 16, m) {}
  XMLSize_t transcodeFrom(const XMLByte* const src, const XMLSize_t n, XMLCh* const toFill, const XMLSize_t max, XMLSize_t& eaten, unsigned char* const sizes) {
    XMLSize_t si = (XMLSize_t)(src - g_reader->fRawByteBuf), ci = (XMLSize_t)(toFill - g_reader->fCharBuf), zi = (XMLSize_t)(sizes - g_reader->fCharSizeBuf);
    VX_ASSERT(si <= XMLReader::kRawBufSize && n <= XMLReader::kRawBufSize - si, "the decoder is handed only bytes inside the raw buffer");
    VX_ASSERT(ci <= XMLReader::kCharBufSize && max <= XMLReader::kCharBufSize - ci && zi == ci, "the decoder is handed only room inside the character buffer");
    XMLSize_t k = n / UNIT < max ? n / UNIT : max;
    for (XMLSize_t i = 0; i < XMLReader::kCharBufSize; i++) if (i < k) {
      g_reader->fCharBuf[ci + i] = (XMLCh)(g_reader->fRawByteBuf[si + UNIT * i] | (g_reader->fRawByteBuf[si + UNIT * i + 1] << 8)); g_reader->fCharSizeBuf[ci + i] = UNIT; }
    eaten = UNIT * k; return k;
  }
  XMLSize_t transcodeTo(const XMLCh* const, const XMLSize_t, XMLByte* const, const XMLSize_t, XMLSize_t& e, const UnRepOpts) { e = 0; return 0; }
  bool canTranscodeTo(const unsigned int) { return true; }
};
static XMLCh EMPTY[1] = { 0 };
extern XMLByte _ZN11xercesc_4_010XMLChar1_019fgCharCharsTable1_0E[] asm("_ZN11xercesc_4_010XMLChar1_019fgCharCharsTable1_0E");
static void init(XMLReader* r, BinInputStream* s, XMLTranscoder* t, MemoryManager* mm, XMLSize_t lowWater, bool external) {
  r->fCharIndex = 0; r->fCharsAvail = 0; r->fCurCol = 1; r->fCurLine = 1; r->fEncoding = XMLRecognizer::UTF_8; r->fEncodingStr = EMPTY; r->fForcedEncoding = true;
  r->fNoMore = false; r->fPublicId = 0; r->fRawBufIndex = 0; r->fRawBytesAvail = 0; r->fLowWaterMark = lowWater; r->fReaderNum = 1; r->fRefFrom = XMLReader::RefFrom_NonLiteral;
  r->fSentTrailingSpace = false; r->fSource = external ? XMLReader::Source_External : XMLReader::Source_Internal; r->fSrcOfsBase = 0; r->fSrcOfsSupported = false; r->fCalculateSrcOfs = false;
  r->fSystemId = EMPTY; r->fStream = s; r->fSwapped = false; r->fThrowAtEnd = false; r->fTranscoder = t; r->fType = XMLReader::Type_General;
  r->fgCharCharsTable = XMLChar1_0::fgCharCharsTable1_0; r->fNEL = false; r->fXMLVersion = XMLReader::XMLV1_0; r->fMemoryManager = mm;
}
static bool inv(const XMLReader* r) {
  return r->fCharIndex <= r->fCharsAvail && r->fCharsAvail <= XMLReader::kCharBufSize && r->fRawBufIndex <= r->fRawBytesAvail && r->fRawBytesAvail <= XMLReader::kRawBufSize;
}
#define MAXOUT (N / UNIT + 1)
// reference: UTF-8 decoding (Unicode Table 3-7) of the whole byte string, then XML 1.0 end-of-line normalisation for external entities
struct Ref { XMLCh out[N + 1]; XMLSize_t n; bool ill; unsigned long line, col; };
// reference: fixed-width decoding of the whole byte string (trailing bytes that do not make a unit are an encoding error), then XML 1.0 end-of-line normalisation
static void reference(const XMLByte* s, XMLSize_t n, bool external, Ref& r) {
  XMLCh dec[N + 1]; XMLSize_t dn = 0; r.ill = (n % UNIT) != 0;      // the stream ends inside a unit: not a legal end of input in the encoding
  for (XMLSize_t i = 0; i + UNIT - 1 < N + 1; i += UNIT) if (i + UNIT - 1 < n) dec[dn++] = (XMLCh)(s[i] | (s[i + 1] << 8));
  r.n = 0; r.line = 1; r.col = 1;
  for (XMLSize_t k = 0; k < N; k++) if (k < dn) {
    XMLCh c = dec[k];
    if (c == 0xD) { r.line++; r.col = 1; if (external) { if (k + 1 < dn && dec[k + 1] == 0xA) k++; r.out[r.n++] = 0xA; } else r.out[r.n++] = c; }
    else if (c == 0xA) { r.line++; r.col = 1; r.out[r.n++] = c; }
    else { r.col++; r.out[r.n++] = c; }
  }
}
extern "C" void harness_reader_chunks(void) {
  VxMM mm; static const XMLCh nm[] = { 'U', 'T', 'F', '-', '8', 0 };
  Dec2 t2(&mm);      // fixed-width 2-byte units: a unit is split whenever a read returns an odd count
  for (int i = 0; i < N; i++) g_in[i] = nondet_u8();
  g_n = nondet_u64(); VX_ASSUME(g_n <= N);
  Stream s2(true);
  static VxRaw<XMLReader> r2;
  XMLSize_t lw = nondet_u64(); VX_ASSUME(lw <= 4);
  bool external = nondet_bool();
  g_reader = &r2.obj; init(&r2.obj, &s2, &t2, &mm, lw, external);
  XMLCh o2[MAXOUT]; XMLSize_t n2 = 0; bool e2 = false; bool refilled = false;
  try { for (int i = 0; i < MAXOUT; i++) { XMLCh c; if (!r2.obj.getNextChar(c)) break; o2[n2++] = c; VX_ASSERT(inv(&r2.obj), "reader invariant after every character: indexes within their buffers");
          if (n2 > XMLReader::kCharBufSize) refilled = true; } }
  catch (const XMLException&) { e2 = true; }
  VX_ASSERT(inv(&r2.obj), "reader invariant holds at end of input or after an exception");
  Ref rf; reference(g_in, g_n, external, rf);
  // an ill-formed sequence is reported however the bytes are split into reads; characters before it may or may not have been delivered yet
  VX_ASSERT(e2 == rf.ill, "an encoding error is reported iff the byte stream is ill-formed, regardless of how it is split into reads");
  if (!e2) {
    VX_ASSERT(n2 == rf.n, "the number of characters delivered equals decode+normalise of the whole stream, for every chunking");
    for (XMLSize_t i = 0; i < MAXOUT; i++) if (i < n2 && n2 == rf.n) VX_ASSERT(o2[i] == rf.out[i], "the characters delivered equal decode+normalise of the whole stream, for every chunking");
    VX_ASSERT(r2.obj.fCurLine == rf.line, "the line number equals that of the whole stream, for every chunking");
    // (columns: U+0085 / U+2028 do not advance the column when NEL recognition is off - independent of chunking, see C03; such inputs are excluded here)
    bool plain = true; for (XMLSize_t i = 0; i < MAXOUT; i++) if (i < n2 && (o2[i] == 0x85 || o2[i] == 0x2028)) plain = false;
    if (plain) VX_ASSERT(r2.obj.fCurCol == rf.col, "the column number equals that of the whole stream, for every chunking");
  }
  if (!e2 && n2 == N / UNIT) VX_REACH("N/UNIT characters delivered"); if (refilled) VX_REACH("character buffer refilled inside the input");
  if (!e2 && g_n == N && (N % UNIT) == 0 && n2 < N / UNIT) VX_REACH("CR LF folded");
}
#ifndef NC
#define NC 5
#endif
extern "C" void harness_reader_eol(void) {
  VxMM mm; Stream s(false); g_n = 0;
  static VxRaw<XMLReader> rr; XMLReader* r = &rr.obj;
  bool external = nondet_bool(), nel = nondet_bool(), v11 = nondet_bool();
  init(r, &s, 0, &mm, 0, external); r->fNoMore = true; r->fNEL = nel; r->fXMLVersion = v11 ? XMLReader::XMLV1_1 : XMLReader::XMLV1_0;
  XMLCh in[NC]; XMLSize_t n = nondet_u64(); VX_ASSUME(n <= NC && n <= XMLReader::kCharBufSize);
  for (int i = 0; i < NC; i++) { in[i] = nondet_u16(); if ((XMLSize_t)i < n) r->fCharBuf[i] = in[i]; }
  r->fCharsAvail = n;
  XMLCh out[NC]; XMLSize_t m = 0;
  for (int i = 0; i < NC; i++) { XMLCh c; if (!r->getNextChar(c)) break; out[m++] = c; }
  // reference: XML 1.0/1.1 section 2.11 on external entities; NEL/LSEP only when NEL recognition is on
  XMLCh ref[NC]; XMLSize_t k = 0; unsigned long line = 1, col = 1;
  for (XMLSize_t i = 0; i < NC; i++) if (i < n) {
    XMLCh c = in[i];
    if (c == 0xD) { line++; col = 1; if (external) { if (i + 1 < n && (in[i + 1] == 0xA || (in[i + 1] == 0x85 && nel))) i++; ref[k++] = 0xA; } else ref[k++] = c; }
    else if (c == 0xA) { line++; col = 1; ref[k++] = c; }
    else if ((c == 0x85 || c == 0x2028) && nel && external) { line++; col = 1; ref[k++] = 0xA; }
    else { col++; ref[k++] = c; }
  }
  VX_ASSERT(m == k, "number of characters delivered after end-of-line normalisation");
  for (XMLSize_t i = 0; i < NC; i++) if (i < k && m == k) VX_ASSERT(out[i] == ref[i], "CRLF, CR NEL, NEL, LSEP and lone CR are delivered as a single LF in external entities; internal entities are delivered unchanged");
  VX_ASSERT(r->fCurLine == line, "line numbers follow the normalised line ends");
  // columns are not part of the property statement; observed: with NEL recognition off, U+0085 / U+2028 do not advance the column
  bool plain = true; for (XMLSize_t i = 0; i < NC; i++) if (i < n && (in[i] == 0x85 || in[i] == 0x2028)) plain = false;
  if (plain || (nel && external)) VX_ASSERT(r->fCurCol == col, "column numbers follow the normalised line ends (inputs without unrecognised NEL/LSEP)");
  if (external && k < n) VX_REACH("two-character line end folded"); if (!external && n == NC) VX_REACH("internal entity");
}
