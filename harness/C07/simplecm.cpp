// C07-P1: the content-model interpreters used for one/two-leaf DTD (and schema) models and for mixed content.
// For every operator, every pair of declared names and EVERY child sequence of length <= N over symbolic names (1-unit local names,
// symbolic URI ids): the real validateContent accepts exactly the regular language of the model; on rejection the failing index is in range.
#include "vx.h"
#include "vx_open.h"
#include <xercesc/validators/common/SimpleContentModel.hpp>
#include <xercesc/validators/common/MixedContentModel.hpp>
#include <xercesc/validators/common/ContentSpecNode.hpp>
#include <xercesc/framework/XMLElementDecl.hpp>
#include <xercesc/util/QName.hpp>
#include "vx_close.h"
#define VX_STUB_XMLEXCEPTION
#define VX_STUB_XMEMORY
#include "vx_stubs.hpp"
#ifndef N
#define N 3
#endif
// cut: QName::getRawName's lazy construction of prefix:local is not exercised - the harness QNames carry their raw name already
const XMLCh* QName::getRawName() const { return fRawName; }
XMLCh* QName::getRawName() { return fRawName; }
struct Nm { XMLCh s[2]; unsigned uri; };
static XMLCh EMPTYSTR[1] = { 0 };
static QName* mkq(void* storage, Nm& n) {     // a QName with its fields set directly (no allocation): raw name == local part, no prefix
  QName* q = (QName*)storage; q->fPrefix = EMPTYSTR; q->fLocalPart = n.s; q->fRawName = n.s; q->fURIId = n.uri;
  q->fPrefixBufSz = 0; q->fLocalPartBufSz = 1; q->fRawNameBufSz = 1; q->fMemoryManager = 0; return q;
}
static void symname(Nm& n) { n.s[0] = nondet_u16(); VX_ASSUME(n.s[0] >= 'a' && n.s[0] <= 'c'); n.s[1] = 0; n.uri = nondet_u32(); VX_ASSUME(n.uri >= 2 && n.uri <= 4); }
static bool same(const Nm& a, const Nm& b, bool dtd) { return dtd ? a.s[0] == b.s[0] : (a.uri == b.uri && a.s[0] == b.s[0]); }
extern "C" void harness_simplecm(void) {
  VxMM mm;
  VxRaw<QName> qs[N + 2]; VxRaw<SimpleContentModel> cms;
  Nm a, b, c[N]; symname(a); symname(b);
  bool dtd = nondet_bool();
  SimpleContentModel* cm = &cms.obj;
  cm->fFirstChild = mkq(&qs[N].obj, a); cm->fSecondChild = mkq(&qs[N + 1].obj, b); cm->fDTD = dtd; *(MemoryManager**)&cm->fMemoryManager = &mm;
  unsigned op = nondet_u8(); VX_ASSUME(op == ContentSpecNode::Leaf || op == ContentSpecNode::ZeroOrOne || op == ContentSpecNode::ZeroOrMore || op == ContentSpecNode::OneOrMore
                                       || op == ContentSpecNode::Choice || op == ContentSpecNode::Sequence);
  cm->fOp = (ContentSpecNode::NodeTypes)op;
  XMLSize_t n = nondet_u64(); VX_ASSUME(n <= N);
  QName* kids[N]; for (int i = 0; i < N; i++) { symname(c[i]); kids[i] = mkq(&qs[i].obj, c[i]); }
  XMLSize_t fail = 99; bool threw = false; bool ok = false;
  try { ok = cm->SimpleContentModel::validateContent(kids, n, 0, &fail, &mm); } catch (const XMLException&) { threw = true; }
  bool all_a = true; for (XMLSize_t i = 0; i < N; i++) if (i < n && !same(c[i], a, dtd)) all_a = false;
  bool want;
  switch (op) {
    case ContentSpecNode::Leaf: want = (n == 1 && same(c[0], a, dtd)); break;
    case ContentSpecNode::ZeroOrOne: want = (n == 0 || (n == 1 && same(c[0], a, dtd))); break;
    case ContentSpecNode::ZeroOrMore: want = all_a; break;
    case ContentSpecNode::OneOrMore: want = (n >= 1 && all_a); break;
    case ContentSpecNode::Choice: want = (n == 1 && (same(c[0], a, dtd) || same(c[0], b, dtd))); break;
    default: want = (n == 2 && same(c[0], a, dtd) && same(c[1], b, dtd)); break;
  }
  VX_ASSERT(!threw, "a valid operator never throws");
  VX_ASSERT(ok == want, "children accepted iff they belong to the regular language of the model (Leaf ? * + choice sequence)");
  if (!ok && !threw) VX_ASSERT(fail <= n, "index of the failing child is within [0, childCount]");
  if (op == ContentSpecNode::Sequence && ok) VX_REACH("sequence accepted"); if (op == ContentSpecNode::OneOrMore && !ok && n == N) VX_REACH("a+ rejects a full-length sequence");
  if (!dtd && ok && n == 1) VX_REACH("schema naming accepted");
}
#ifndef M
#define M 3
#endif
extern "C" void harness_mixedcm(void) {
  VxMM mm;
  VxRaw<QName> qs[N + M]; VxRaw<MixedContentModel> cms;
  Nm decl[M], c[N]; QName* dq[M]; ContentSpecNode::NodeTypes ty[M];
  bool dtd = nondet_bool();
  XMLSize_t cnt = nondet_u64(); VX_ASSUME(cnt >= 1 && cnt <= M);
  for (int i = 0; i < M; i++) { symname(decl[i]); if (i == 0) { decl[0].uri = XMLElementDecl::fgPCDataElemId; decl[0].s[0] = '#'; }   /* entry 0 is #PCDATA: never an element name */ dq[i] = mkq(&qs[N + i].obj, decl[i]); ty[i] = ContentSpecNode::Leaf; }
  MixedContentModel* cm = &cms.obj;
  cm->fCount = cnt; cm->fChildren = dq; cm->fChildTypes = ty; cm->fOrdered = false; cm->fDTD = dtd; *(MemoryManager**)&cm->fMemoryManager = &mm;
  XMLSize_t n = nondet_u64(); VX_ASSUME(n <= N);
  QName* kids[N]; bool pcd[N];
  for (int i = 0; i < N; i++) { symname(c[i]); pcd[i] = nondet_bool(); if (pcd[i]) c[i].uri = XMLElementDecl::fgPCDataElemId; kids[i] = mkq(&qs[i].obj, c[i]); }
  XMLSize_t fail = 99; bool ok = cm->MixedContentModel::validateContent(kids, n, 0, &fail, &mm);
  bool want = true; XMLSize_t firstBad = 99;
  for (XMLSize_t i = 0; i < N; i++) if (i < n && !pcd[i]) {
    bool hit = false; for (XMLSize_t k = 1; k < M; k++) if (k < cnt && same(c[i], decl[k], dtd)) hit = true;
    if (!hit && want) { want = false; firstBad = i; }
  }
  VX_ASSERT(ok == want, "mixed content accepted iff every element child is one of the declared names (character data anywhere)");
  if (!ok) VX_ASSERT(fail == firstBad, "failing index is the first undeclared child");
  if (ok && n == N && !pcd[0]) VX_REACH("full-length mixed content accepted"); if (!ok) VX_REACH("undeclared child rejected");
}
