// C20-P1: the inclusion-history stack that implements loop detection (real XIncludeUtils code).  For EVERY script of <= K pushes/pops
// with URI strings of <= 2 symbolic units: isInCurrentInclusionHistoryStack(u) <=> u equals some URI currently on the stack; pop removes
// the most recent; after freeInclusionHistory nothing is outstanding and nothing was released twice.
#include "vx.h"
#include "vx_open.h"
#include <xercesc/xinclude/XIncludeUtils.hpp>
#include <xercesc/util/PlatformUtils.hpp>
#include <xercesc/util/XMLString.hpp>
#include "vx_close.h"
#define VX_STUB_XMLEXCEPTION
#define VX_STUB_XMEMORY
#include "vx_stubs.hpp"
#ifndef K
#define K 4
#endif
static bool eq(const XMLCh* a, const XMLCh* b) { return a[0] == b[0] && (a[0] == 0 || (a[1] == b[1])); }
extern "C" void harness_history(void) {
  VxMMFixed<16> mm; XMLPlatformUtils::fgMemoryManager = &mm;      // list node = 16 bytes, URI copy <= 6 bytes
  VxRaw<XIncludeUtils> ur; XIncludeUtils* u = &ur.obj; u->fIncludeHistoryHead = 0;
  XMLCh uri[K][3]; int depth = 0; XMLCh st[K][3]; bool popped = false;
  for (int s = 0; s < K; s++) {
    if (nondet_bool()) {
      uri[s][0] = nondet_u16(); uri[s][1] = nondet_u16(); uri[s][2] = 0;
      VX_ASSERT(u->addDocumentURIToCurrentInclusionHistoryStack(uri[s]), "push succeeds");
      st[depth][0] = uri[s][0]; st[depth][1] = uri[s][0] ? uri[s][1] : 0; st[depth][2] = 0; depth++;
    } else { u->popFromCurrentInclusionHistoryStack(0); if (depth > 0) { depth--; popped = true; } }
    VX_ASSERT(mm.live == (unsigned long)(2 * depth), "exactly one node and one URI copy per stacked entry are outstanding");
  }
  XMLCh q[3]; q[0] = nondet_u16(); q[1] = nondet_u16(); q[2] = 0;
  bool want = false; for (int i = 0; i < K; i++) if (i < depth && eq(st[i], q)) want = true;
  VX_ASSERT(u->isInCurrentInclusionHistoryStack(q) == want, "isIn(u) iff u equals a URI currently on the inclusion stack");
  if (want && popped) VX_REACH("hit after a pop"); if (!want && depth == K) VX_REACH("miss on a full stack");
  u->freeInclusionHistory();
  VX_ASSERT(mm.live == 0 && u->fIncludeHistoryHead == 0, "freeInclusionHistory releases everything");
}
