// C20-P3: href resolution.  For EVERY href of <= NH units and every base of <= NB units (full 16-bit units, any terminator position):
// XIncludeLocation(href).prependPath(base) == base-up-to-and-including-its-last-slash + href-without-scheme (after the library's own
// "/seg/../" removal on both, which is the identity when no "/../" occurs - assumed here), and no access outside any buffer.
#include "vx.h"
#include "vx_open.h"
#include <xercesc/xinclude/XIncludeLocation.hpp>
#include <xercesc/util/PlatformUtils.hpp>
#include <xercesc/util/XMLString.hpp>
#include "vx_close.h"
#define VX_STUB_XMLEXCEPTION
#define VX_STUB_XMEMORY
#include "vx_stubs.hpp"
#ifdef CUT_DOTDOT
// cut: the "/seg/../" normalisation is the identity on the strings considered here (no ".." - assumed below); it has its own harness (dotdot)
static int vx_dd_calls; static const XMLCh* vx_dd_arg[4];
void XMLPlatformUtils::removeDotDotSlash(XMLCh* const p, MemoryManager* const) { if (vx_dd_calls < 4) vx_dd_arg[vx_dd_calls] = p; vx_dd_calls++; }   // recorder: WHICH strings get normalised is asserted below
#endif
#ifndef NH
#define NH 4
#endif
#ifndef NB
#define NB 3
#endif
static bool hasDotDot(const XMLCh* s, int n) { bool r = false; for (int i = 0; i + 1 < n; i++) if (s[i] == '.' && s[i + 1] == '.') r = true; return r; }
extern "C" void harness_location(void) {
  VxMMFixed<64> mm;                       // every request here is at most (NH + NB + 2) * 2 bytes
  XMLPlatformUtils::fgMemoryManager = &mm;
  XMLCh href[NH + 1]; for (int i = 0; i < NH; i++) href[i] = nondet_u16(); href[NH] = 0;
  XMLCh base[NB + 1]; for (int i = 0; i < NB; i++) base[i] = nondet_u16(); base[NB] = 0;
  VX_ASSUME(!hasDotDot(href, NH) && !hasDotDot(base, NB));   // "/seg/../" normalisation is outside this harness' reference
  XMLSize_t hl = 0; while (href[hl]) hl++;
  XMLSize_t bl = 0; while (base[bl]) bl++;
  {
    XIncludeLocation loc(href);
    const XMLCh* l0 = loc.getLocation();
#ifdef CUT_DOTDOT
    VX_ASSERT(vx_dd_calls == 1 && vx_dd_arg[0] == l0, "the href copy is normalised (/seg/../ removed) when the location is constructed");
#endif
    for (XMLSize_t i = 0; i <= NH; i++) if (i <= hl) VX_ASSERT(l0[i] == href[i], "location initially equals the href");
    const XMLCh* r = loc.prependPath(base);
    // reference: base[0..lastSlash] + href (no scheme possible within NH < 7 units)
    int ls = -1; for (int i = 0; i < NB; i++) if ((XMLSize_t)i < bl && base[i] == '/') ls = i;
    if (ls < 0) for (int i = 0; i < NB; i++) if ((XMLSize_t)i < bl && base[i] == '\\') ls = i;
    VX_ASSERT(r != 0, "prependPath yields a location");
#ifdef CUT_DOTDOT
    VX_ASSERT(vx_dd_calls == 2 && vx_dd_arg[1] == base, "the base is normalised before it is prepended");
#endif
    for (int i = 0; i < NB; i++) if (i <= ls) VX_ASSERT(r[i] == base[i], "result starts with the base up to its last slash");
    for (XMLSize_t i = 0; i <= NH; i++) if (i <= hl) VX_ASSERT(r[ls + 1 + i] == href[i], "result continues with the href and is terminated");
    if (ls >= 0 && hl == NH) VX_REACH("base with slash and full-length href");
    if (ls < 0) VX_REACH("base without slash");
  }
  VX_ASSERT(mm.live == 0, "everything allocated for the location is released by its destructor");
}
#ifndef NS
#define NS 9
#endif
extern "C" void harness_protocol(void) {
  // findEndOfProtocol on every string of <= NS units: strips exactly file:/// ftp:/// http:/// and never reads past the terminator
  VxMMFixed<64> mm; XMLPlatformUtils::fgMemoryManager = &mm;
  XMLCh s[NS + 1]; for (int i = 0; i < NS; i++) s[i] = nondet_u16(); s[NS] = 0;
  XMLSize_t n = 0; while (s[n]) n++;
  // place the string at the very end of an exactly sized heap block so that any read past the terminator is out of bounds
  XMLCh* t = (XMLCh*)malloc((n + 1) * sizeof(XMLCh)); VX_ASSUME(t != 0);
  for (XMLSize_t i = 0; i <= NS; i++) if (i <= n) t[i] = s[i];
  static const XMLCh HREF0[] = { 'x', 0 };
  XIncludeLocation loc(HREF0);
  const XMLCh* e = loc.findEndOfProtocol(t);
  static const char* F = "file:///"; static const char* P = "ftp:///"; static const char* H = "http:///";
  bool f = n >= 8, p = n >= 7, h = n >= 8;
  for (int i = 0; i < 8; i++) { if (f && s[i] != (XMLCh)F[i]) f = false; if (h && s[i] != (XMLCh)H[i]) h = false; if (i < 7 && p && s[i] != (XMLCh)P[i]) p = false; }
  VX_ASSERT(e == t + (f ? 8 : p ? 7 : h ? 8 : 0), "findEndOfProtocol skips exactly the three known scheme prefixes");
  if (f) VX_REACH("file scheme"); if (p) VX_REACH("ftp scheme"); if (n < 3) VX_REACH("short string");
  free(t);
}

#ifndef ND
#define ND 3
#endif
extern "C" void harness_dotdot(void) {
  // XMLPlatformUtils::removeDotDotSlash on EVERY string of <= ND units held in an exactly sized heap block:
  // no access outside the block; strings without "/../" are left unchanged; the result is never longer than the input
  VxMMFixed<32> mm; XMLPlatformUtils::fgMemoryManager = &mm;
  XMLCh s[ND + 1]; for (int i = 0; i < ND; i++) s[i] = nondet_u16(); s[ND] = 0;
  XMLSize_t n = 0; while (s[n]) n++;
  XMLCh* t = 0;                                 // exactly sized block, concrete size on every path (a heap object of symbolic size explodes)
  for (XMLSize_t k = 0; k <= ND; k++) if (n == k) t = (XMLCh*)malloc((k + 1) * sizeof(XMLCh));
  VX_ASSUME(t != 0);
  for (XMLSize_t i = 0; i <= ND; i++) if (i <= n) t[i] = s[i];
  XMLPlatformUtils::removeDotDotSlash(t, &mm);
  XMLSize_t m = 0; while (m <= n && t[m]) m++;
  VX_ASSERT(m <= n, "result is terminated within the original block and not longer than the input");
  bool pat = false; for (int i = 0; i + 3 < ND + 1; i++) if ((s[i] == '/' || s[i] == '\\') && s[i + 1] == '.' && s[i + 2] == '.' && (s[i + 3] == '/' || s[i + 3] == '\\')) pat = true;
  if (!pat) for (XMLSize_t i = 0; i <= ND; i++) if (i <= n) VX_ASSERT(t[i] == s[i], "a path without /../ is unchanged");
  VX_ASSERT(mm.live == 0, "temporaries released");
  if (n == ND) VX_REACH("full-length path"); if (n == 1) VX_REACH("one-character path");
  free(t);
}
