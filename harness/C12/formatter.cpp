// C12-P1: XMLFormatter escaping (real formatBuf / specialFormat / handleUnEscapedChars / writeCharRef / getCharRef / inEscapeList) with the
// real US-ASCII transcoder and a byte-collecting target.  For EVERY buffer of N UTF-16 units (held in an exactly sized heap block: the
// (ptr,count) API promises no terminator), every escape mode and XML 1.0/1.1, with unrepresentable characters written as character
// references:  (i) no access outside [toFormat, toFormat+count);  (ii) the bytes written equal the reference serialisation - each unit
// is written raw iff it is representable and not in the mode's escape set, otherwise as its predefined entity or as &#xHEX;, a surrogate
// pair as ONE reference to the combined code point.
#include "vx.h"
#include "vx_open.h"
#include <xercesc/framework/XMLFormatter.hpp>
#include <xercesc/util/TransService.hpp>
#include <xercesc/util/XMLString.hpp>
#include "vx_close.h"
#define VX_STUB_XMLEXCEPTION
#define VX_STUB_XMLTRANSCODER
#define VX_STUB_XMEMORY
#include "vx_stubs.hpp"
#ifndef N
#define N 2
#endif
#define OUTMAX 64
// 7-bit output encoding with the contract of the real US-ASCII transcoder (representable iff < 0x80, unrepresentable => exception unless a
// replacement is asked for); the real transcoders are verified on their own in C05 - here the subject is the formatter
static int vx_unrep_throw; static XMLFormatter* g_fmt;
struct Ascii7 : XMLTranscoder {
  Ascii7(MemoryManager* m) : XMLTranscoder(0, 64, m) {}
  XMLSize_t transcodeFrom(const XMLByte* const, const XMLSize_t, XMLCh* const, const XMLSize_t, XMLSize_t& e, unsigned char* const) { e = 0; return 0; }
  // writes through the TYPED lvalue g_fmt->fTmpBuf[...] (a store through a raw pointer into a member array is a whole-object byte update in CBMC)
  XMLSize_t transcodeTo(const XMLCh* const src, const XMLSize_t n, XMLByte* const out, const XMLSize_t max, XMLSize_t& eaten, const UnRepOpts opt) {
    XMLSize_t at = (XMLSize_t)(out - g_fmt->fTmpBuf);
    VX_ASSERT(at == 0 && max <= XMLFormatter::kTmpBufSize, "the formatter hands the transcoder its staging buffer, with its true size");
    XMLSize_t k = n < max ? n : max;
    for (XMLSize_t i = 0; i < 16; i++) if (i < k) { XMLByte b; if (src[i] < 0x80) b = (XMLByte)src[i]; else if (opt == UnRep_Throw) { vx_unrep_throw++; b = '!'; } else b = 0x1A; g_fmt->fTmpBuf[i] = b; }
    VX_ASSERT(k <= 16, "chunk handed to the transcoder within the harness bound"); VX_ASSUME(k <= 16);
    eaten = k; return k; }
  bool canTranscodeTo(const unsigned int c) { return c < 0x80; }
};
struct Collect : XMLFormatTarget {
  XMLByte buf[OUTMAX]; XMLSize_t n; bool overflow;
  Collect() : n(0), overflow(false) {}
  void writeChars(const XMLByte* const p, const XMLSize_t count, XMLFormatter* const) { if (count > 16 || n + count > OUTMAX) { overflow = true; return; } memcpy(buf + n, p, count); n += count; }
};
static XMLByte ref[OUTMAX]; static XMLSize_t rn;
static void put(char c) { if (rn < OUTMAX) ref[rn++] = (XMLByte)c; }
static void puts_(const char* s) { while (*s) put(*s++); }
static void charref(unsigned v) {             // &#xHEX; upper-case, no leading zeros
  put('&'); put('#'); put('x');
  bool started = false;
  for (int sh = 20; sh >= 0; sh -= 4) { unsigned d = (v >> sh) & 0xF; if (d || started || sh == 0) { put((char)(d < 10 ? '0' + d : 'A' + d - 10)); started = true; } }
  put(';');
}
static bool inEsc(unsigned mode, unsigned c, bool xml11) {
  if (mode == XMLFormatter::StdEscapes && (c == '&' || c == '>' || c == '"' || c == '<' || c == '\'')) return true;
  if (mode == XMLFormatter::AttrEscapes && (c == '&' || c == '<' || c == '"' || c == 0xA || c == 0xD || c == 0x9)) return true;
  if (mode == XMLFormatter::CharEscapes && (c == '&' || c == '<' || c == '>' || c == 0xD)) return true;
  if (mode != XMLFormatter::NoEscapes) { if (xml11 && ((c >= 1 && c <= 0x1F) || (c >= 0x7F && c <= 0x9F)) && c != 0x9 && c != 0xA && c != 0xD && c != 0x85) return true; }
  return false;
}
extern "C" void harness_formatter(void) {
  VxMMFixed<16> mm;
  Ascii7 xc(&mm);
  Collect tgt;
  static VxRaw<XMLFormatter> fr; XMLFormatter* f = &fr.obj; g_fmt = f;
  unsigned mode = nondet_u8(); VX_ASSUME(mode <= XMLFormatter::CharEscapes);
  bool xml11 = nondet_bool();
  f->fEscapeFlags = (XMLFormatter::EscapeFlags)mode; f->fOutEncoding = 0; f->fTarget = &tgt; f->fUnRepFlags = XMLFormatter::UnRep_CharRef; f->fXCoder = &xc;
  f->fAposRef = 0; f->fAposLen = 0; f->fAmpRef = 0; f->fAmpLen = 0; f->fGTRef = 0; f->fGTLen = 0; f->fLTRef = 0; f->fLTLen = 0; f->fQuoteRef = 0; f->fQuoteLen = 0;
  f->fIsXML11 = xml11; f->fMemoryManager = &mm;
  XMLCh* in = (XMLCh*)malloc(N * sizeof(XMLCh)); VX_ASSUME(in != 0);
  XMLCh c[N]; for (int i = 0; i < N; i++) { c[i] = nondet_u16(); in[i] = c[i]; }
#ifdef PAIR
  // this variant: the buffer is exactly one supplementary character (a surrogate pair), the case the single-unit quick harness cannot hold
  VX_ASSUME(c[0] >= 0xD800 && c[0] <= 0xDBFF && c[1] >= 0xDC00 && c[1] <= 0xDFFF);
#endif
  // well-formed UTF-16 only (ill-formed input is the subject of the known finding below, not of the output equation)
  for (int i = 0; i < N; i++) {
    bool lead = c[i] >= 0xD800 && c[i] <= 0xDBFF, trail = c[i] >= 0xDC00 && c[i] <= 0xDFFF;
    if (lead) VX_ASSUME(i + 1 < N && c[i + 1] >= 0xDC00 && c[i + 1] <= 0xDFFF);
    if (trail) VX_ASSUME(i > 0 && c[i - 1] >= 0xD800 && c[i - 1] <= 0xDBFF);
  }
  bool threw = false;
  try { f->formatBuf(in, N, XMLFormatter::DefaultEscape, XMLFormatter::DefaultUnRep); } catch (const XMLException&) { threw = true; }
  // reference
  rn = 0;
  for (int i = 0; i < N; i++) {
    unsigned u = c[i];
    if (u >= 0xD800 && u <= 0xDBFF) { charref(0x10000 + ((u - 0xD800) << 10) + (c[i + 1] - 0xDC00)); i++; continue; }
    if (u >= 0x80) { charref(u); continue; }
    if (inEsc(mode, u, xml11)) {
      if (u == '&') puts_("&amp;"); else if (u == '<') puts_("&lt;"); else if (u == '>') puts_("&gt;"); else if (u == '"') puts_("&quot;"); else if (u == '\'') puts_("&apos;"); else charref(u);
    } else put((char)u);
  }
  VX_ASSERT(!threw, "formatting with character references for unrepresentable characters never throws");
  VX_ASSERT(vx_unrep_throw == 0, "the transcoder is never handed a character it cannot represent (it would throw)");
  VX_ASSERT(!tgt.overflow && tgt.n == rn, "number of bytes written equals the reference serialisation");
  for (XMLSize_t i = 0; i < N * 10 + 2; i++) if (i < rn && tgt.n == rn) VX_ASSERT(tgt.buf[i] == ref[i], "bytes written equal the reference: raw iff representable and not in the escape set, else entity or &#xHEX;");
#if N >= 2
  if (c[0] >= 0xD800 && c[0] <= 0xDBFF) VX_REACH("supplementary character written as one reference");
#else
  if (c[0] >= 0x80) VX_REACH("unrepresentable character written as a reference");
#endif
#ifdef PAIR
  if (mode == XMLFormatter::NoEscapes && xml11) VX_REACH("pair written in NoEscapes mode, XML 1.1");
#else
  if (c[0] == '<' && mode != XMLFormatter::NoEscapes) VX_REACH("markup character escaped");
  if (xml11 && c[0] == 0x1 && mode == XMLFormatter::CharEscapes) VX_REACH("XML 1.1 control character written as a reference");
#endif
  free(in);
}
