// C09-P3: xs:hexBinary codec.  For EVERY NUL-terminated string of at most N 16-bit units:
// accepted <=> even number of [0-9a-fA-F] (XSD lexical space); decode is exact; canonical form is the upper-cased
// string and is a fixed point; no access outside any object (CBMC bounds/pointer checks on the real table look-ups).
#include "vx.h"
#include "vx_open.h"
#include <xercesc/util/HexBin.hpp>
#include <xercesc/util/XMLString.hpp>
#include "vx_close.h"
#define VX_STUB_XMLEXCEPTION
#define VX_STUB_XMEMORY
#include "vx_stubs.hpp"
#ifndef N
#define N 4
#endif
static int hv(unsigned c) { return (c >= '0' && c <= '9') ? (int)(c - '0') : (c >= 'a' && c <= 'f') ? (int)(c - 'a' + 10) : (c >= 'A' && c <= 'F') ? (int)(c - 'A' + 10) : -1; }
extern "C" void harness_hexbin(void) {
  VxMM mm;
  XMLCh s[N + 1]; for (int i = 0; i < N; i++) s[i] = nondet_u16(); s[N] = 0;
  XMLSize_t len = 0; while (s[len]) len++;
  bool valid = (len % 2 == 0); for (XMLSize_t i = 0; i < N; i++) if (i < len && hv(s[i]) < 0) valid = false;
  VX_ASSERT(HexBin::isArrayByteHex(s) == valid, "isArrayByteHex accepts exactly the hexBinary lexical space");
  VX_ASSERT(HexBin::getDataLength(s) == (valid ? (int)(len / 2) : -1), "getDataLength = octet count or -1");
  XMLByte* d = HexBin::decodeToXMLByte(s, &mm);
  VX_ASSERT((d != 0) == (valid && len > 0), "decodeToXMLByte succeeds iff the string is a non-empty valid lexical form");
  if (d) {
    for (XMLSize_t i = 0; i < N / 2; i++) if (i < len / 2)
      VX_ASSERT(d[i] == (XMLByte)(hv(s[2 * i]) * 16 + hv(s[2 * i + 1])), "decoded octet equals reference");
    VX_ASSERT(d[len / 2] == 0, "decoded buffer is terminated");
    mm.deallocate(d);
    if (len == N) VX_REACH("N hex digits decoded");
  }
  XMLCh* c = HexBin::getCanonicalRepresentation(s, &mm);
  VX_ASSERT((c != 0) == valid, "canonical representation exists iff valid");
  if (c) {
    for (XMLSize_t i = 0; i <= N; i++) if (i <= len) {
      unsigned e = s[i]; if (e >= 'a' && e <= 'f') e = e - 'a' + 'A';
      VX_ASSERT(c[i] == (XMLCh)e, "canonical form is the upper-cased lexical form");
    }
    XMLCh* c2 = HexBin::getCanonicalRepresentation(c, &mm);
    VX_ASSERT(c2 != 0, "canonical form is valid");
    if (c2) { for (XMLSize_t i = 0; i <= N; i++) if (i <= len) VX_ASSERT(c2[i] == c[i], "canonical form is a fixed point"); mm.deallocate(c2); }
    mm.deallocate(c);
  } else VX_REACH("invalid hexBinary rejected");
}
