// C09-P4: the lexical scanner of xs:decimal and of every type derived from it (real XMLBigDecimal::parseDecimal, both overloads: the one
// that extracts sign / digits / scale, used for value-space comparison and the totalDigits / fractionDigits facets, and the validate-only one).
// For EVERY zero-terminated string of <= N units (full 16-bit range): accepted iff it is, after trimming XML white space, in the lexical
// space  [+-]? ( [0-9]+ ( '.' [0-9]* )? | '.' [0-9]+ );  for accepted strings the digit string has no leading integer zeros and no trailing
// fraction zeros, totalDigits / fractDigits count exactly those digits, the sign is 0 iff the value is zero; both overloads agree; no
// access outside the string or the result buffer.
#include "vx.h"
#include "vx_open.h"
#include <xercesc/util/XMLBigDecimal.hpp>
#include <xercesc/util/NumberFormatException.hpp>
#include "vx_close.h"
#define VX_STUB_XMLEXCEPTION
#define VX_STUB_XMEMORY
#include "vx_stubs.hpp"
#ifndef N
#define N 4
#endif
static bool ws(XMLCh c) { return c == 0x20 || c == 0x9 || c == 0xA || c == 0xD; }
static bool dig(XMLCh c) { return c >= '0' && c <= '9'; }
extern "C" void harness_decimal(void) {
  VxMM mm;
  static XMLCh in[N + 1], out[N + 1];          // exactly sized objects: every access is bounds-checked against them
  XMLSize_t len = nondet_u64(); VX_ASSUME(len <= N);
  XMLCh s[N + 1]; for (int i = 0; i < N; i++) { s[i] = nondet_u16(); if ((XMLSize_t)i < len) VX_ASSUME(s[i] != 0); else s[i] = 0; in[i] = s[i]; } s[N] = 0; in[N] = 0;
  for (int i = 0; i <= N; i++) out[i] = 0x7777;
  int sign = 9, total = -1, fract = -1; bool threw = false, threw2 = false;
  try { XMLBigDecimal::parseDecimal(in, out, sign, total, fract, &mm); } catch (const XMLException&) { threw = true; }
  try { XMLBigDecimal::parseDecimal(in, &mm); } catch (const XMLException&) { threw2 = true; }
  // reference
  XMLSize_t a = 0, b = len;
  while (a < len && a < N && ws(s[a])) a++;
  while (b > a && ws(s[b - 1])) b--;
  bool ok = a < b; int rsign = 1;
  if (ok && (s[a] == '-' || s[a] == '+')) { if (s[a] == '-') rsign = -1; a++; if (a == b) ok = false; }
  XMLCh ref[N + 1]; int rn = 0, nint = 0, nfr = 0; bool dot = false; int anydigit = 0;
  for (XMLSize_t i = 0; i < N; i++) if (ok && i >= a && i < b) {
    if (s[i] == '.') { if (dot) ok = false; dot = true; }
    else if (dig(s[i])) { anydigit++; if (!dot) { if (nint > 0 || s[i] != '0') { ref[rn++] = s[i]; nint++; } } else { ref[rn++] = s[i]; nfr++; } }
    else ok = false;
  }
  if (ok && anydigit == 0) ok = false;                        // at least one digit: "." "+." "-" are not decimals
  while (ok && nfr > 0 && ref[rn - 1] == '0') { rn--; nfr--; }
  VX_ASSERT(threw == !ok, "parseDecimal accepts exactly the xs:decimal lexical space (white space trimmed)");
  VX_ASSERT(threw2 == !ok, "the validate-only overload accepts exactly the same strings");
  if (!threw && ok) {
    VX_ASSERT(total == rn && fract == nfr, "totalDigits / fractDigits count the significant digits (no leading integer zeros, no trailing fraction zeros)");
    VX_ASSERT(sign == (rn == 0 ? 0 : rsign), "sign is 0 iff the value is zero, else that of the literal");
    for (int i = 0; i <= N; i++) if (i <= rn && total == rn) VX_ASSERT(out[i] == (i < rn ? ref[i] : 0), "digit string = significant digits, zero terminated");
    if (rn == N - 1 && dot) VX_REACH("fraction accepted");
    if (rn == 0) VX_REACH("zero accepted");
  }
  if (!ok && len == N) VX_REACH("rejected");
}
