// C09-P6: the partial order of xs:duration (XML Schema Part 2, 3.2.6.2): x < y iff s+x < s+y for EACH of the four reference dateTimes
// 1696-09-01, 1697-02-01, 1903-03-01, 1903-07-01 (T00:00:00Z); the order is indeterminate when the four comparisons disagree.
// Real code: XMLDateTime::compare(d1, d2, strict) with addDuration (carry chain + month-length loop), compareOrder, compareResult.
// Inputs: two arbitrary non-negative durations in field form (years 0..MAXY <= 1, months 0..MAXMO <= 14, days 0..MAXD, hours 0..MAXH, minutes and seconds
// 0..MAXMS - un-normalised fields such as PT36H or P14M are legal durations), as parseDuration leaves them in fValue[].
// Reference (independent of the code's month-walking loop): s + months is again the first of a month, so the instant reached from
// reference i is  (days-from-civil(first of month) + days) * 86400 + h * 3600 + m * 60 + s ; days-from-civil is evaluated at COMPILE time
// (constexpr, Gregorian closed form) into a 4 x 27 table.  strict: result = the common verdict of the four comparisons, else
// INDETERMINATE.  Non-strict (facet checks): if the four agree that verdict; if some say less and some say greater, INDETERMINATE
// (mixtures with "equal" are not judged: the Recommendation defines no non-strict mode).
#include "vx.h"
#include "vx_open.h"
#include <xercesc/util/XMLDateTime.hpp>
#include "vx_close.h"
#define VX_STUB_XMLEXCEPTION
#define VX_STUB_XMEMORY
#include "vx_stubs.hpp"
#ifndef MAXD
#define MAXD 70
#endif
#ifndef MAXY
#define MAXY 1
#endif
#ifndef MAXMO
#define MAXMO 14
#endif
#ifndef MAXH
#define MAXH 30
#endif
#ifndef MAXMS
#define MAXMS 70
#endif
constexpr long dfc(long y, int m, int d) {
  y -= m <= 2; long era = (y >= 0 ? y : y - 399) / 400; long yoe = y - era * 400;
  long doy = (153 * (m + (m > 2 ? -3 : 9)) + 2) / 5 + d - 1; long doe = yoe * 365 + yoe / 4 - yoe / 100 + doy;
  return era * 146097 + doe - 719468;
}
constexpr long first(int y0, int m0, int k) { return dfc(y0 + (m0 - 1 + k) / 12, (m0 - 1 + k) % 12 + 1, 1); }
struct Tab { long v[4][27]; };
constexpr Tab mktab() {
  Tab t = {};
  const int Y[4] = {1696, 1697, 1903, 1903}, M[4] = {9, 2, 3, 7};
  for (int i = 0; i < 4; i++) for (int k = 0; k < 27; k++) t.v[i][k] = first(Y[i], M[i], k);
  return t;
}
static constexpr Tab TAB = mktab();
static_assert(TAB.v[0][1] - TAB.v[0][0] == 30 && TAB.v[1][1] - TAB.v[1][0] == 28 && TAB.v[2][1] - TAB.v[2][0] == 31 && TAB.v[3][2] - TAB.v[3][0] == 62, "reference table sanity (spec table: P1M = 30/28/31 days)");
static int rng(int lo, int hi) { int v = (int)nondet_u32(); VX_ASSUME(v >= lo && v <= hi); return v; }
struct Dur { int y, mo, d, h, mi, s; };
static void mk(XMLDateTime* t, Dur& u) {
  u.y = rng(0, MAXY); u.mo = rng(0, MAXMO); u.d = rng(0, MAXD); u.h = rng(0, MAXH); u.mi = rng(0, MAXMS); u.s = rng(0, MAXMS);
  t->fValue[XMLDateTime::CentYear] = u.y; t->fValue[XMLDateTime::Month] = u.mo; t->fValue[XMLDateTime::Day] = u.d; t->fValue[XMLDateTime::Hour] = u.h;
  t->fValue[XMLDateTime::Minute] = u.mi; t->fValue[XMLDateTime::Second] = u.s; t->fValue[XMLDateTime::MiliSecond] = 0;
  t->fValue[XMLDateTime::utc] = XMLDateTime::UTC_STD;      // parseDuration: UTC_STD for a non-negative duration
  t->fTimeZone[XMLDateTime::hh] = 0; t->fTimeZone[XMLDateTime::mm] = 0; t->fMilliSecond = 0; t->fHasTime = false; t->fBuffer = 0; t->fStart = t->fEnd = t->fBufferMaxLen = 0;
}
static long inst(const Dur& u, int i) { return (TAB.v[i][12 * u.y + u.mo] + u.d) * 86400L + u.h * 3600L + u.mi * 60L + u.s; }
extern "C" void harness_durcmp(void) {
  static VxRaw<XMLDateTime> ra, rb; XMLDateTime* a = &ra.obj; XMLDateTime* b = &rb.obj;
  Dur ua, ub; mk(a, ua); mk(b, ub);
  bool strict = nondet_bool();
  int r = XMLDateTime::compare(a, b, strict);
  int nl = 0, ne = 0, ng = 0;
  for (int i = 0; i < 4; i++) { long x = inst(ua, i), y = inst(ub, i); if (x < y) nl++; else if (x > y) ng++; else ne++; }
  VX_ASSERT(r == XMLDateTime::LESS_THAN || r == XMLDateTime::EQUAL || r == XMLDateTime::GREATER_THAN || r == XMLDateTime::INDETERMINATE, "result is one of the four verdicts");
  if (nl == 4) VX_ASSERT(r == XMLDateTime::LESS_THAN, "x < y when s+x < s+y for all four reference dateTimes");
  if (ng == 4) VX_ASSERT(r == XMLDateTime::GREATER_THAN, "x > y when s+x > s+y for all four reference dateTimes");
  if (ne == 4) VX_ASSERT(r == XMLDateTime::EQUAL, "x = y when s+x = s+y for all four reference dateTimes (e.g. P1D and PT24H)");
  if (nl > 0 && ng > 0) VX_ASSERT(r == XMLDateTime::INDETERMINATE, "the order is indeterminate when the reference dateTimes disagree");
  if (strict && nl != 4 && ng != 4 && ne != 4) VX_ASSERT(r == XMLDateTime::INDETERMINATE, "strict comparison: any disagreement is indeterminate");
  if (nl == 3 && ng == 1) VX_REACH("three reference dateTimes say less, one says greater");
  if (nl == 4 && ua.mo > 0 && ub.mo == 0 && ub.y == 0) VX_REACH("months compared with days: determinate");
  if (ne == 4 && ua.d != ub.d) VX_REACH("equal durations with different field spellings");
  if (nl > 0 && ne > 0) VX_REACH("mixture of less and equal");
}
