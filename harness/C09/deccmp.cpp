// C09-P5: the order of xs:decimal in the VALUE space (real XMLBigDecimal constructor + setDecimalValue + compareValues / toCompare,
// the comparison behind enumeration, min/max bounds and identity constraints of every decimal-derived type).
// For EVERY pair of accepted literals of <= N units each (full 16-bit units; sign, leading / trailing zeros, white space, bare fraction
// ".5", "5.", "-0", "+0.0" all included) the result of compareValues equals the comparison of the two rational values computed here
// from the literals (integer mantissa x 10^-scale, cross-multiplied); consequences checked explicitly: equal values compare equal whatever
// their spelling, antisymmetry.  History: the left operand is either constructed from its literal or constructed from a third literal and
// then re-assigned with setDecimalValue (buffer reuse / reallocation path).
#include "vx.h"
#include "vx_open.h"
#include <xercesc/util/XMLBigDecimal.hpp>
#include <xercesc/util/NumberFormatException.hpp>
#include "vx_close.h"
#define VX_STUB_XMLEXCEPTION
#define VX_STUB_XMEMORY
#include "vx_stubs.hpp"
#ifndef N
#define N 3
#endif
static bool ws(XMLCh c) { return c == 0x20 || c == 0x9 || c == 0xA || c == 0xD; }
static bool dig(XMLCh c) { return c >= '0' && c <= '9'; }
static const long P10[8] = {1, 10, 100, 1000, 10000, 100000, 1000000, 10000000};
struct Val { bool ok; long mant; int scale; };   // value = mant * 10^-scale (mant signed)
static void mkstr(XMLCh* s) {
  XMLSize_t len = nondet_u64(); VX_ASSUME(len >= 1 && len <= N);
  for (int i = 0; i < N; i++) { s[i] = nondet_u16(); if ((XMLSize_t)i < len) VX_ASSUME(s[i] != 0); else s[i] = 0; } s[N] = 0;
}
static Val ref(const XMLCh* s) {
  Val v; v.ok = true; v.mant = 0; v.scale = 0;
  int len = 0; while (len < N && s[len]) len++;
  int a = 0, b = len;
  while (a < len && ws(s[a])) a++;
  while (b > a && ws(s[b - 1])) b--;
  if (a >= b) v.ok = false;
  bool negv = false;
  if (v.ok && (s[a] == '-' || s[a] == '+')) { negv = s[a] == '-'; a++; if (a == b) v.ok = false; }
  bool dot = false; int any = 0;
  for (int i = 0; i < N; i++) if (v.ok && i >= a && i < b) {
    if (s[i] == '.') { if (dot) v.ok = false; dot = true; }
    else if (dig(s[i])) { any++; v.mant = v.mant * 10 + (s[i] - '0'); if (dot) v.scale++; }
    else v.ok = false;
  }
  if (any == 0) v.ok = false;
  if (negv) v.mant = -v.mant;
  return v;
}
extern "C" void harness_deccmp(void) {
  VxMMFixed<64> mm;                                  // ctor: (2*len+2) units, setDecimalValue: (2*len+4) units, len <= N
  static XMLCh sa[N + 1], sb[N + 1], s0[N + 1];
  mkstr(sa); mkstr(sb);
  Val va = ref(sa), vb = ref(sb);
  VX_ASSUME(va.ok && vb.ok);                         // the lexical space is the subject of harness `decimal`
  bool threw = false; int r1 = 9, r2 = 9;
  try {
    XMLBigDecimal B(sb, &mm);
#if HISTORY
    mkstr(s0); Val v0 = ref(s0); VX_ASSUME(v0.ok);
    XMLBigDecimal A(s0, &mm);
    A.setDecimalValue(sa);
    VX_REACH("left operand re-assigned with setDecimalValue");
#else
    XMLBigDecimal A(sa, &mm);
#endif
    r1 = XMLBigDecimal::compareValues(&A, &B, &mm);
    r2 = XMLBigDecimal::compareValues(&B, &A, &mm);
  } catch (const XMLException&) { threw = true; }
  VX_ASSERT(!threw, "accepted literals construct and compare without an exception");
  if (!threw) {
    long l = va.mant * P10[vb.scale & 7], r = vb.mant * P10[va.scale & 7];
    int expect = l < r ? -1 : l > r ? 1 : 0;
    VX_ASSERT(r1 == expect, "compareValues orders two decimals by their VALUE (-1 / 0 / 1), whatever their spelling");
    VX_ASSERT(r2 == -expect, "compareValues is antisymmetric");
    if (expect == 0 && va.scale != vb.scale) VX_REACH("equal values, different spellings");
    if (expect == 0 && va.mant == 0 && sa[0] == '-') VX_REACH("negative zero literal");
    if (expect < 0 && va.mant < 0 && vb.mant < 0) VX_REACH("two negative values ordered");
    if (expect > 0 && va.scale > 0 && vb.scale > 0) VX_REACH("two fractions ordered");
  }
}
