// C09-P6: the lexical scanners of the date types without a time part (real XMLDateTime::parseDate / parseYearMonth / parseYear /
// parseMonthDay / parseDay / parseMonth with getDate / getYearMonth / parseIntYear / parseInt / findUTCSign / parseTimeZone / getTimeZone /
// validateDateTime - index arithmetic over the value buffer).  For EVERY zero-terminated buffer of 1..N units (full 16-bit range, no trailing
// white space as setBuffer leaves it; the units BEHIND the terminator are arbitrary, so a verdict that depends on them is a failure):
// for a value without a leading minus sign it is accepted iff it is in the lexical space of the type
//   date  CCYY+-MM-DD   gYearMonth  CCYY+-MM   gYear  CCYY+   gMonthDay  --MM-DD   gDay  ---DD   gMonth  --MM (and the old --MM--)
// each followed by an optional time zone  Z | (+|-)hh:mm  within +-14:00, with at least four year digits, no leading zero on longer years,
// year not 0000 and not beyond 2^31-1 (refused, not wrapped), month 1..12, day valid for the month (and year, Gregorian leap rule; gMonthDay allows 29 February).
// With a leading minus sign (negative year) the verdict is not judged (leap rule for negative years), only memory safety.
#include "vx.h"
#include "vx_open.h"
#include <xercesc/util/XMLDateTime.hpp>
#include "vx_close.h"
#define VX_STUB_XMLEXCEPTION
#define VX_STUB_XMEMORY
#define VX_STUB_NUMTOTEXT
#include "vx_stubs.hpp"
#ifndef N
#define N 12
#endif
#ifndef OP
#define OP 0
#endif
static bool dig(XMLCh c) { return c >= '0' && c <= '9'; }
static bool leap(long y) { return (y % 4 == 0) && ((y % 100 != 0) || (y % 400 == 0)); }
static int maxday(long y, int m) { return (m == 4 || m == 6 || m == 9 || m == 11) ? 30 : (m == 2 ? (leap(y) ? 29 : 28) : 31); }
static XMLCh s[N + 8]; static XMLSize_t len;
static int two(XMLSize_t p) { return (p + 1 < len && dig(s[p]) && dig(s[p + 1])) ? (s[p] - '0') * 10 + (s[p + 1] - '0') : -1; }
// optional time zone starting at p, up to the end
static bool tz(XMLSize_t p) {
  if (p == len) return true;
  if (p > len) return false;
  if (s[p] == 'Z') return p + 1 == len;
  if (s[p] != '+' && s[p] != '-') return false;
  if (p + 6 != len || s[p + 3] != ':') return false;
  int hh = two(p + 1), mi = two(p + 4);
  return hh >= 0 && mi >= 0 && hh <= 14 && mi <= 59 && !(hh == 14 && mi != 0);
}
// year digits s[0..e): at least 4, no leading zero if more, not zero
static bool year(XMLSize_t e, long& y) {
  if (e < 4 || e > len) return false; y = 0;
  for (XMLSize_t i = 0; i < N; i++) if (i < e) { if (!dig(s[i])) return false; y = y * 10 + (s[i] - '0'); }
  // (years are kept in an int: a longer year is REFUSED - an application-defined limit XML Schema allows - never altered)
  return !(e > 4 && s[0] == '0') && y != 0 && y <= 0x7FFFFFFFL;
}
static XMLSize_t firstOf(bool dashOnly) { for (XMLSize_t i = 0; i < N; i++) if (i < len && (s[i] == '-' || (!dashOnly && (s[i] == 'Z' || s[i] == '+')))) return i; return len; }
extern "C" void harness_dateparse(void) {
  VxMM mm;
  static VxRaw<XMLDateTime> r; XMLDateTime* t = &r.obj;
  static XMLCh buf[N + 8];
  len = nondet_u64(); VX_ASSUME(len >= 1 && len <= N);
  for (int i = 0; i < N + 7; i++) { s[i] = nondet_u16(); if ((XMLSize_t)i < len) VX_ASSUME(s[i] != 0); else if ((XMLSize_t)i == len) s[i] = 0; buf[i] = s[i]; } s[N + 7] = 0; buf[N + 7] = 0;
  VX_ASSUME(!(s[len - 1] == 0x20 || s[len - 1] == 0x9 || s[len - 1] == 0xA || s[len - 1] == 0xD));
  for (int i = 0; i < XMLDateTime::TOTAL_SIZE; i++) t->fValue[i] = 0;
  t->fTimeZone[0] = 0; t->fTimeZone[1] = 0; t->fStart = 0; t->fEnd = len; t->fBufferMaxLen = N + 7; t->fMilliSecond = 0; t->fHasTime = false; t->fBuffer = buf; t->fMemoryManager = &mm;
  bool threw = false;
  try {
#if OP == 0
    t->parseDate();
#elif OP == 1
    t->parseYearMonth();
#elif OP == 2
    t->parseYear();
#elif OP == 3
    t->parseMonthDay();
#elif OP == 4
    t->parseDay();
#else
    t->parseMonth();
#endif
  } catch (const XMLException&) { threw = true; }
  bool neg = s[0] == '-' && OP <= 2;
  bool ok; long y = 2000; int mo, dd;
#if OP == 0
  { XMLSize_t e = firstOf(true); mo = two(e + 1); dd = two(e + 4);
    ok = len >= 10 && year(e, y) && mo >= 1 && mo <= 12 && e + 3 < len && s[e + 3] == '-' && dd >= 1 && dd <= maxday(y, mo) && tz(e + 6); }
#elif OP == 1
  { XMLSize_t e = firstOf(true); mo = two(e + 1); ok = len >= 7 && year(e, y) && mo >= 1 && mo <= 12 && tz(e + 3); }
#elif OP == 2
  { XMLSize_t e = firstOf(false); ok = year(e, y) && tz(e); }
#elif OP == 3
  mo = two(2); dd = two(5); ok = len >= 7 && s[0] == '-' && s[1] == '-' && s[4] == '-' && mo >= 1 && mo <= 12 && dd >= 1 && dd <= maxday(2000, mo) && tz(7);
#elif OP == 4
  dd = two(3); ok = len >= 5 && s[0] == '-' && s[1] == '-' && s[2] == '-' && dd >= 1 && dd <= 31 && tz(5);
#else
  mo = two(2); ok = len >= 4 && s[0] == '-' && s[1] == '-' && mo >= 1 && mo <= 12 && (tz(4) || (len >= 6 && s[4] == '-' && s[5] == '-' && tz(6)));
#endif
  if (!neg) VX_ASSERT(threw == !ok, "the value is accepted exactly when it is in the lexical space of the type (non-negative years)");
  if (!threw) VX_ASSERT(t->fValue[XMLDateTime::Month] >= 1 && t->fValue[XMLDateTime::Month] <= 12 && t->fValue[XMLDateTime::Day] >= 1 && t->fValue[XMLDateTime::Day] <= 31, "an accepted value has month and day in range");
  if (!neg && ok && len == N) VX_REACH("longest value accepted");
  if (!neg && ok && len < N) VX_REACH("shorter value accepted");
  if (!neg && !ok && len >= 5) VX_REACH("rejected");
}
