// C09-P2: time-zone normalisation of date/time values (real XMLDateTime::normalize with its carry/borrow loop and month-length table).
// For EVERY valid timezoned instant (year 2..9998, any month/day/time, any offset -14:00..+14:00): the normalised fields denote the same
// instant in UTC - i.e. equal a loop-free reference (minute/hour carry, day +-1 across month, year and leap-day boundaries) - all
// fields are in range afterwards and the value is marked UTC.  compareOrder of the normalised value against itself is EQUAL.
#include "vx.h"
#include "vx_open.h"
#include <xercesc/util/XMLDateTime.hpp>
#include "vx_close.h"
#define VX_STUB_XMLEXCEPTION
#define VX_STUB_XMEMORY
#include "vx_stubs.hpp"
static bool leap(int y) { return (y % 4 == 0) && ((y % 100 != 0) || (y % 400 == 0)); }
static int maxday(int y, int m) { return (m == 4 || m == 6 || m == 9 || m == 11) ? 30 : (m == 2 ? (leap(y) ? 29 : 28) : 31); }
static int rng(int lo, int hi) { int v = (int)nondet_u32(); VX_ASSUME(v >= lo && v <= hi); return v; }
extern "C" void harness_dt_normalize(void) {
  static VxRaw<XMLDateTime> r; XMLDateTime* t = &r.obj;
  int y = rng(2, 9998), mo = rng(1, 12), d = rng(1, 31), h = rng(0, 23), mi = rng(0, 59), s = rng(0, 59);
  VX_ASSUME(d <= maxday(y, mo));
  bool pos = nondet_bool(); int zh = rng(0, 14), zm = rng(0, 59); VX_ASSUME(zh < 14 || zm == 0);
  t->fValue[XMLDateTime::CentYear] = y; t->fValue[XMLDateTime::Month] = mo; t->fValue[XMLDateTime::Day] = d; t->fValue[XMLDateTime::Hour] = h;
  t->fValue[XMLDateTime::Minute] = mi; t->fValue[XMLDateTime::Second] = s; t->fValue[XMLDateTime::MiliSecond] = 0;
  t->fValue[XMLDateTime::utc] = pos ? XMLDateTime::UTC_POS : XMLDateTime::UTC_NEG;
  t->fTimeZone[XMLDateTime::hh] = zh; t->fTimeZone[XMLDateTime::mm] = zm; t->fMilliSecond = 0; t->fHasTime = true; t->fBuffer = 0; t->fStart = t->fEnd = t->fBufferMaxLen = 0;
  t->normalize();
  // reference: local time minus offset (a "+" zone is ahead of UTC)
  int sign = pos ? -1 : 1;
  int m2 = mi + sign * zm, hc = 0; if (m2 < 0) { m2 += 60; hc = -1; } else if (m2 >= 60) { m2 -= 60; hc = 1; }
  int h2 = h + sign * zh + hc, dc = 0; if (h2 < 0) { h2 += 24; dc = -1; } else if (h2 >= 24) { h2 -= 24; dc = 1; }
  int d2 = d + dc, mo2 = mo, y2 = y;
  if (d2 < 1) { mo2--; if (mo2 < 1) { mo2 = 12; y2--; } d2 = maxday(y2, mo2); }
  else if (d2 > maxday(y2, mo2)) { d2 = 1; mo2++; if (mo2 > 12) { mo2 = 1; y2++; } }
  VX_ASSERT(t->fValue[XMLDateTime::utc] == XMLDateTime::UTC_STD, "normalised value is marked UTC");
  VX_ASSERT(t->fValue[XMLDateTime::Minute] == m2 && t->fValue[XMLDateTime::Hour] == h2, "normalised hour and minute denote the same instant");
  VX_ASSERT(t->fValue[XMLDateTime::Day] == d2 && t->fValue[XMLDateTime::Month] == mo2 && t->fValue[XMLDateTime::CentYear] == y2, "normalised date denotes the same instant (month, year and leap-day boundaries)");
  VX_ASSERT(t->fValue[XMLDateTime::Second] == s, "seconds untouched");
  if (dc == -1 && d == 1 && mo == 3) VX_REACH("borrow into February");
  if (dc == 1 && mo == 12 && d == 31) VX_REACH("carry into the next year");
  if (dc == -1 && d == 1 && (mo == 2 || mo == 4 || mo == 6 || mo == 9 || mo == 11)) VX_REACH("borrow into a 31-day month from a shorter one");
}
