// C09-P5: the whiteSpace facet (XML Schema Part 2, 4.3.6) every simple-type value passes through before validation: real
// XMLString::replaceWS / collapseWS / removeWS / isWSReplaced / isWSCollapsed (in-place edits of a zero-terminated buffer).
// For EVERY string of <= N units in an exactly sized buffer: replace maps TAB/LF/CR to space; collapse = replace, then trim, then runs of
// spaces to one; the predicates hold exactly on the fixed points; results are idempotent; nothing outside the buffer is touched.
#include "vx.h"
#include "vx_open.h"
#include <xercesc/util/XMLString.hpp>
#include "vx_close.h"
#define VX_STUB_XMLEXCEPTION
#define VX_STUB_XMEMORY
#include "vx_stubs.hpp"
#ifndef N
#define N 5
#endif
static bool ws(XMLCh c) { return c == 0x20 || c == 0x9 || c == 0xA || c == 0xD; }
extern "C" void harness_wsfacet(void) {
  VxMM mm;
  static XMLCh buf[N + 1];
  XMLSize_t len = nondet_u64(); VX_ASSUME(len <= N);
  XMLCh s[N + 1]; for (int i = 0; i < N; i++) { s[i] = nondet_u16(); if ((XMLSize_t)i < len) VX_ASSUME(s[i] != 0); else s[i] = 0; buf[i] = s[i]; } s[N] = 0; buf[N] = 0;
  // references
  XMLCh rep[N + 1]; for (int i = 0; i <= N; i++) rep[i] = (s[i] == 0x9 || s[i] == 0xA || s[i] == 0xD) ? 0x20 : s[i];
  XMLCh col[N + 1]; XMLSize_t cn = 0; bool pend = false;
  for (int i = 0; i < N; i++) if ((XMLSize_t)i < len) { if (ws(s[i])) { if (cn > 0) pend = true; } else { if (pend) col[cn++] = 0x20; pend = false; col[cn++] = s[i]; } }
  col[cn] = 0;
  XMLCh rem[N + 1]; XMLSize_t rn = 0; for (int i = 0; i < N; i++) if ((XMLSize_t)i < len && !ws(s[i])) rem[rn++] = s[i]; rem[rn] = 0;
  bool isRep = true; for (int i = 0; i < N; i++) if ((XMLSize_t)i < len && (s[i] == 0x9 || s[i] == 0xA || s[i] == 0xD)) isRep = false;
  bool isCol = (cn == len); for (int i = 0; i < N; i++) if ((XMLSize_t)i < len && cn == len && col[i] != s[i]) isCol = false;
  unsigned op = nondet_u8() % 5;
  if (op == 0) { XMLString::replaceWS(buf, &mm); for (int i = 0; i <= N; i++) VX_ASSERT(buf[i] == rep[i], "replaceWS: TAB, LF, CR become a space, everything else unchanged");
                 VX_ASSERT(XMLString::isWSReplaced(buf), "the result of replaceWS is replaced"); if (!isRep) VX_REACH("something replaced"); }
  else if (op == 1) { XMLString::collapseWS(buf, &mm);
                 for (int i = 0; i <= N; i++) if ((XMLSize_t)i <= cn) VX_ASSERT(buf[i] == col[i], "collapseWS: replaced, trimmed, runs of spaces reduced to one");
                 VX_ASSERT(XMLString::isWSCollapsed(buf), "the result of collapseWS is collapsed (idempotent)"); if (cn + 2 <= len) VX_REACH("collapse removed at least two units"); }
  else if (op == 2) { XMLString::removeWS(buf, &mm); for (int i = 0; i <= N; i++) if ((XMLSize_t)i <= rn) VX_ASSERT(buf[i] == rem[i], "removeWS deletes exactly the white space"); }
  else if (op == 3) VX_ASSERT(XMLString::isWSReplaced(buf) == isRep, "isWSReplaced iff no TAB, LF, CR");
  else { VX_ASSERT(XMLString::isWSCollapsed(buf) == isCol, "isWSCollapsed iff collapsing changes nothing"); if (isCol && len == N) VX_REACH("collapsed string of full length"); }
}
