// C09-P3: xs:base64Binary codec (schema conformance).  For EVERY NUL-terminated string of at most N 16-bit units:
// accepted <=> matches the XSD lexical grammar (E2-54: single #x20 separators, quartets, padding with zero bits);
// decode is exact; canonical form re-decodes to the same octets; encode(decode) is the canonical form with a line feed;
// no access outside any object.
#include "vx.h"
#include "vx_open.h"
#include <xercesc/util/Base64.hpp>
#include <xercesc/util/XMLString.hpp>
#include <xercesc/util/PlatformUtils.hpp>
#include "vx_close.h"
#define VX_STUB_XMLEXCEPTION
#define VX_STUB_XMEMORY
#include "vx_stubs.hpp"
#ifndef N
#define N 5
#endif
static int b64(unsigned c) { return (c >= 'A' && c <= 'Z') ? (int)(c - 'A') : (c >= 'a' && c <= 'z') ? (int)(c - 'a' + 26) : (c >= '0' && c <= '9') ? (int)(c - '0' + 52) : c == '+' ? 62 : c == '/' ? 63 : -1; }
extern "C" void harness_base64(void) {
  VxMM mm;
  XMLCh s[N + 1]; for (int i = 0; i < N; i++) s[i] = nondet_u16(); s[N] = 0;
  XMLSize_t len = 0; while (s[len]) len++;
  // reference: strip single spaces (none leading/trailing/double), then quartets
  unsigned raw[N + 1]; XMLSize_t rl = 0; bool ok = len > 0; bool prevSp = false;
  if (len > 0 && s[0] == 0x20) ok = false;
  for (XMLSize_t i = 0; i < N; i++) if (i < len) {
    if (s[i] == 0x20) { if (prevSp) ok = false; prevSp = true; } else { raw[rl++] = s[i]; prevSp = false; }
  }
  if (prevSp) ok = false;
  if (rl == 0 || rl % 4 != 0) ok = false;
  XMLByte ref[3 * (N / 4) + 3]; XMLSize_t outl = 0;
  if (ok) {
    for (XMLSize_t q = 0; q < N / 4; q++) if (4 * q + 3 < rl) {
      bool last = (4 * q + 4 == rl);
      int a = b64(raw[4 * q]), b = b64(raw[4 * q + 1]), c = b64(raw[4 * q + 2]), d = b64(raw[4 * q + 3]);
      if (a < 0 || b < 0) { ok = false; break; }
      if (c >= 0 && d >= 0) { ref[outl++] = (XMLByte)(a << 2 | b >> 4); ref[outl++] = (XMLByte)(b << 4 | c >> 2); ref[outl++] = (XMLByte)(c << 6 | d); }
      else if (last && raw[4 * q + 2] == '=' && raw[4 * q + 3] == '=') { if (b & 0xF) { ok = false; break; } ref[outl++] = (XMLByte)(a << 2 | b >> 4); }
      else if (last && c >= 0 && raw[4 * q + 3] == '=') { if (c & 0x3) { ok = false; break; } ref[outl++] = (XMLByte)(a << 2 | b >> 4); ref[outl++] = (XMLByte)(b << 4 | c >> 2); }
      else { ok = false; break; }
    }
  }
  XMLSize_t dl = 0;
  XMLByte* d = Base64::decodeToXMLByte(s, &dl, &mm, Base64::Conf_Schema);
  VX_ASSERT((d != 0) == ok, "decodeToXMLByte accepts exactly the base64Binary lexical space");
  if (d) {
    VX_ASSERT(dl == outl, "decoded length equals reference");
    for (XMLSize_t i = 0; i < 3 * (N / 4); i++) if (i < dl && dl == outl) VX_ASSERT(d[i] == ref[i], "decoded octet equals reference");
    // encode back: canonical text + LF
    XMLSize_t el = 0; XMLByte* e = Base64::encode(d, dl, &el, &mm);
    VX_ASSERT(e != 0 && el == rl + 1, "encode(decode(s)) has the canonical length plus one line feed");
    if (e && el == rl + 1) { for (XMLSize_t i = 0; i < N; i++) if (i < rl) VX_ASSERT(e[i] == (XMLByte)raw[i], "encode(decode(s)) equals s without separators (canonical form)"); VX_ASSERT(e[rl] == 0x0A, "line feed"); }
    if (e) mm.deallocate(e);
    mm.deallocate(d);
    if (outl == 3) VX_REACH("full quartet decoded");
    if (outl == 1) VX_REACH("double padded quartet decoded");
  } else if (len == N) VX_REACH("invalid base64 of full length rejected");
  VX_ASSERT(Base64::getDataLength(s, &mm, Base64::Conf_Schema) == (ok ? (int)outl : -1), "getDataLength = octet count or -1");
  XMLCh* c = Base64::getCanonicalRepresentation(s, &mm, Base64::Conf_Schema);
  VX_ASSERT((c != 0) == ok, "canonical representation exists iff valid");
  if (c) { for (XMLSize_t i = 0; i <= N; i++) if (i <= rl) VX_ASSERT(c[i] == (i < rl ? (XMLCh)raw[i] : 0), "canonical form = lexical form without separators"); mm.deallocate(c); }
}
