// C15-P5: transparency of grammar caching at the lookup gate (real GrammarResolver::getGrammar(description) / getGrammar(namespace) /
// putGrammar).  The two hash tables of the resolver (its own bucket, the "already fetched from the pool" table) are cut, in
// C15/restables.cpp, to recorders with arbitrary answers; the grammar pool is a recording stub.  For EVERY combination of flags and answers:
// with use-cached-grammar OFF the pool and the from-pool table are never consulted - the answer is the parser's own bucket or nothing - so
// what an earlier parse fetched cannot influence this one; with it ON the lookup order is own bucket, from-pool table, pool, and only a
// grammar the pool returned is remembered.  putGrammar hands a grammar to the pool only when caching is on, and keeps it in the own bucket
// exactly when the pool did not take it.
#include "vx.h"
#include "vx_open.h"
#include <xercesc/validators/common/GrammarResolver.hpp>
#include <xercesc/framework/XMLGrammarPool.hpp>
#include <xercesc/framework/XMLGrammarDescription.hpp>
#include <xercesc/validators/common/Grammar.hpp>
#include "vx_close.h"
#define VX_STUB_XMLEXCEPTION
#define VX_STUB_XMEMORY
#include "vx_stubs.hpp"
void* vx_tab_bucket; void* vx_tab_frompool;                  // identities of the two tables
void* vx_bucket_answer; void* vx_frompool_answer;            // what get() answers
int vx_bucket_get, vx_bucket_put, vx_frompool_get, vx_frompool_put; void* vx_frompool_put_val; void* vx_bucket_put_val;
static const XMLCh KEY[] = { 'k', 0 };
struct StubDesc : XMLGrammarDescription {
  StubDesc() : XMLGrammarDescription(0) {}
  Grammar::GrammarType getGrammarType() const { return Grammar::DTDGrammarType; }
  const XMLCh* getGrammarKey() const { return KEY; }
  bool isSerializable() const { return false; } XProtoType* getProtoType() const { return 0; } void serialize(XSerializeEngine&) {}
};
struct StubGrammar : Grammar {
  StubDesc d;
  GrammarType getGrammarType() const { return DTDGrammarType; } const XMLCh* getTargetNamespace() const { return KEY; } bool getValidated() const { return false; }
  XMLElementDecl* findOrAddElemDecl(const unsigned int, const XMLCh* const, const XMLCh* const, const XMLCh* const, unsigned int, bool&) { return 0; }
  XMLSize_t getElemId(const unsigned int, const XMLCh* const, const XMLCh* const, unsigned int) const { return 0; }
  const XMLElementDecl* getElemDecl(const unsigned int, const XMLCh* const, const XMLCh* const, unsigned int) const { return 0; }
  XMLElementDecl* getElemDecl(const unsigned int, const XMLCh* const, const XMLCh* const, unsigned int) { return 0; }
  const XMLElementDecl* getElemDecl(const unsigned int) const { return 0; } XMLElementDecl* getElemDecl(const unsigned int) { return 0; }
  const XMLNotationDecl* getNotationDecl(const XMLCh* const) const { return 0; } XMLNotationDecl* getNotationDecl(const XMLCh* const) { return 0; }
  XMLElementDecl* putElemDecl(const unsigned int, const XMLCh* const, const XMLCh* const, const XMLCh* const, unsigned int, const bool) { return 0; }
  XMLSize_t putElemDecl(XMLElementDecl* const, const bool) { return 0; } XMLSize_t putNotationDecl(XMLNotationDecl* const) const { return 0; }
  void setValidated(const bool) {} void reset() {} void setGrammarDescription(XMLGrammarDescription*) {} XMLGrammarDescription* getGrammarDescription() const { return (XMLGrammarDescription*)&d; }
  bool isSerializable() const { return false; } XProtoType* getProtoType() const { return 0; } void serialize(XSerializeEngine&) {}
};
XMLGrammarDescription::XMLGrammarDescription(MemoryManager* const m) : fMemMgr(m) {}
XMLGrammarDescription::~XMLGrammarDescription() {}
static int p_retrieve, p_cache, p_other; static Grammar* p_retrieve_answer; static bool p_cache_answer;
struct StubPool : XMLGrammarPool {
  StubPool(MemoryManager* m) : XMLGrammarPool(m) {}
  bool cacheGrammar(Grammar* const) { p_cache++; return p_cache_answer; }
  Grammar* retrieveGrammar(XMLGrammarDescription* const) { p_retrieve++; return p_retrieve_answer; }
  Grammar* orphanGrammar(const XMLCh* const) { p_other++; return 0; }
  RefHashTableOfEnumerator<Grammar> getGrammarEnumerator() const { VX_ASSERT(0, "grammar enumeration not reached"); VX_ASSUME(0); return *(RefHashTableOfEnumerator<Grammar>*)0; }
  bool clear() { p_other++; return false; } void lockPool() { p_other++; } void unlockPool() { p_other++; }
  DTDGrammar* createDTDGrammar() { p_other++; return 0; } SchemaGrammar* createSchemaGrammar() { p_other++; return 0; }
  XMLDTDDescription* createDTDDescription(const XMLCh* const) { p_other++; return 0; }
  XMLSchemaDescription* createSchemaDescription(const XMLCh* const) { p_other++; return 0; }
  XSModel* getXSModel(bool&) { p_other++; return 0; } XMLStringPool* getURIStringPool() { p_other++; return 0; }
  void serializeGrammars(BinOutputStream* const) { p_other++; } void deserializeGrammars(BinInputStream* const) { p_other++; }
};
extern "C" void harness_resolver(void) {
  VxMM mm;
  static VxRaw<GrammarResolver> rr; GrammarResolver* gr = &rr.obj;
  static long t1[4], t2[4]; vx_tab_bucket = t1; vx_tab_frompool = t2;
  StubPool pool(&mm); StubGrammar own, cached, fromPool, fresh; StubDesc desc;
  bool useCached = nondet_bool(), cacheOn = nondet_bool();
  gr->fCacheGrammar = cacheOn; gr->fUseCachedGrammar = useCached; gr->fGrammarPoolFromExternalApplication = true; gr->fStringPool = 0;
  gr->fGrammarBucket = (RefHashTableOf<Grammar>*)t1; gr->fGrammarFromPool = (RefHashTableOf<Grammar>*)t2; gr->fDataTypeReg = 0; gr->fMemoryManager = &mm;
  gr->fGrammarPool = &pool; gr->fXSModel = 0; gr->fGrammarPoolXSModel = 0; gr->fGrammarsToAddToXSModel = 0;
  vx_bucket_answer = nondet_bool() ? (void*)&own : 0; vx_frompool_answer = nondet_bool() ? (void*)&cached : 0;
  p_retrieve_answer = nondet_bool() ? (Grammar*)&fromPool : 0; p_cache_answer = nondet_bool();
  unsigned op = nondet_u8() % 3;
  if (op == 0 || op == 1) {
    Grammar* g = op == 0 ? gr->getGrammar(&desc) : gr->getGrammar(KEY);
    VX_ASSERT(vx_bucket_get == 1 && vx_bucket_put == 0, "the parser's own grammars are looked up first, exactly once");
    if (vx_bucket_answer) { VX_ASSERT(g == (Grammar*)&own && vx_frompool_get == 0 && p_retrieve == 0 && p_other == 0, "a grammar of this parse takes precedence; nothing else is consulted"); VX_REACH("own grammar"); }
    else if (!useCached) {
      VX_ASSERT(g == 0, "use-cached-grammar off: a grammar that is not this parser's own is not found");
      VX_ASSERT(vx_frompool_get == 0 && vx_frompool_put == 0 && p_retrieve == 0 && p_cache == 0 && p_other == 0, "use-cached-grammar off: neither the pool nor what earlier parses fetched from it is consulted");
      VX_REACH("caching off: transparent");
    } else if (op == 0) {
      VX_ASSERT(vx_frompool_get == 1, "use-cached-grammar on: the already-fetched table is consulted next");
      if (vx_frompool_answer) VX_ASSERT(g == (Grammar*)&cached && p_retrieve == 0 && vx_frompool_put == 0, "a grammar fetched earlier is reused without asking the pool again");
      else { VX_ASSERT(p_retrieve == 1 && g == p_retrieve_answer, "otherwise the pool is asked exactly once and its answer returned");
             VX_ASSERT(vx_frompool_put == (p_retrieve_answer ? 1 : 0) && (!p_retrieve_answer || vx_frompool_put_val == (void*)&fromPool), "only a grammar the pool returned is remembered");
             if (p_retrieve_answer) VX_REACH("fetched from the pool"); }
    }
  } else {
    gr->putGrammar(&fresh);
    if (!cacheOn) VX_ASSERT(p_cache == 0, "cache-grammar off: the pool is never offered the grammar");
    else VX_ASSERT(p_cache == 1, "cache-grammar on: the pool is offered the grammar exactly once");
    bool kept = !cacheOn || !p_cache_answer;
    VX_ASSERT(vx_bucket_put == (kept ? 1 : 0) && (!kept || vx_bucket_put_val == (void*)&fresh) && vx_frompool_put == 0, "the grammar stays in the parser's own bucket exactly when the pool did not take it");
    if (!kept) VX_REACH("grammar handed to the pool");
  }
}
