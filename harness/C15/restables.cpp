// Cut of RefHashTableOf<Grammar> for C15/resolver.cpp: the two tables of the resolver are told apart by identity.
#include "vx.h"
extern void* vx_tab_bucket; extern void* vx_tab_frompool; extern void* vx_bucket_answer; extern void* vx_frompool_answer;
extern int vx_bucket_get, vx_bucket_put, vx_frompool_get, vx_frompool_put; extern void* vx_frompool_put_val; extern void* vx_bucket_put_val;
#define T "_ZN11xercesc_4_014RefHashTableOfINS_7GrammarENS_12StringHasherEE"
extern "C" void vx_put(void*, void*, void*) asm(T "3putEPvPS1_");
extern "C" void vx_put(void* t, void*, void* v) { if (t == vx_tab_bucket) { vx_bucket_put++; vx_bucket_put_val = v; } else if (t == vx_tab_frompool) { vx_frompool_put++; vx_frompool_put_val = v; } else VX_ASSERT(0, "put on an unknown table"); }
extern "C" void* vx_get(void*, const void*) asm(T "3getEPKv");
extern "C" void* vx_get(void* t, const void*) { if (t == vx_tab_bucket) { vx_bucket_get++; return vx_bucket_answer; } if (t == vx_tab_frompool) { vx_frompool_get++; return vx_frompool_answer; } VX_ASSERT(0, "get on an unknown table"); return 0; }
