// C15-P4: "a locked grammar pool is never modified" and the lock gate of the pool (real XMLGrammarPoolImpl::cacheGrammar / orphanGrammar /
// clear / retrieveGrammar / getURIStringPool).  The grammar registry (hash table) is cut, in C15/registry.cpp, to a recorder with arbitrary
// answers, so EVERY combination of registry state, pool flags and operation is covered: with the pool locked no mutating registry
// operation is reached and the documented "refused" value is returned; unlocked, the documented effect happens exactly once.
#include "vx.h"
#include "vx_open.h"
#include <xercesc/framework/XMLGrammarPoolImpl.hpp>
#include <xercesc/framework/XMLGrammarDescription.hpp>
#include <xercesc/validators/common/Grammar.hpp>
#include <xercesc/util/StringPool.hpp>
#include <xercesc/util/SynchronizedStringPool.hpp>
#include "vx_close.h"
#define VX_STUB_XMLEXCEPTION
#define VX_STUB_XMEMORY
#include "vx_stubs.hpp"
int vx_reg_mut, vx_reg_put, vx_reg_orphan, vx_reg_clear, vx_reg_read; bool vx_reg_contains; void* vx_reg_orphan_result; void* vx_reg_get_result;
static const XMLCh KEY[] = { 'k', 0 };
struct StubDesc : XMLGrammarDescription {
  StubDesc() : XMLGrammarDescription(0) {}
  Grammar::GrammarType getGrammarType() const { return Grammar::SchemaGrammarType; }
  const XMLCh* getGrammarKey() const { return KEY; }
  bool isSerializable() const { return false; } XProtoType* getProtoType() const { return 0; } void serialize(XSerializeEngine&) {}
};
static unsigned vx_gtype;
struct StubGrammar : Grammar {
  StubDesc d;
  GrammarType getGrammarType() const { return (GrammarType)vx_gtype; } const XMLCh* getTargetNamespace() const { return KEY; } bool getValidated() const { return false; }
  XMLElementDecl* findOrAddElemDecl(const unsigned int, const XMLCh* const, const XMLCh* const, const XMLCh* const, unsigned int, bool&) { return 0; }
  XMLSize_t getElemId(const unsigned int, const XMLCh* const, const XMLCh* const, unsigned int) const { return 0; }
  const XMLElementDecl* getElemDecl(const unsigned int, const XMLCh* const, const XMLCh* const, unsigned int) const { return 0; }
  XMLElementDecl* getElemDecl(const unsigned int, const XMLCh* const, const XMLCh* const, unsigned int) { return 0; }
  const XMLElementDecl* getElemDecl(const unsigned int) const { return 0; } XMLElementDecl* getElemDecl(const unsigned int) { return 0; }
  const XMLNotationDecl* getNotationDecl(const XMLCh* const) const { return 0; } XMLNotationDecl* getNotationDecl(const XMLCh* const) { return 0; }
  XMLElementDecl* putElemDecl(const unsigned int, const XMLCh* const, const XMLCh* const, const XMLCh* const, unsigned int, const bool) { return 0; }
  XMLSize_t putElemDecl(XMLElementDecl* const, const bool) { return 0; } XMLSize_t putNotationDecl(XMLNotationDecl* const) const { return 0; }
  void setValidated(const bool) {} void reset() {} void setGrammarDescription(XMLGrammarDescription*) {} XMLGrammarDescription* getGrammarDescription() const { return (XMLGrammarDescription*)&d; }
  bool isSerializable() const { return false; } XProtoType* getProtoType() const { return 0; } void serialize(XSerializeEngine&) {}
};
XMLGrammarDescription::XMLGrammarDescription(MemoryManager* const m) : fMemMgr(m) {}
XMLGrammarDescription::~XMLGrammarDescription() {}
extern "C" void harness_pool(void) {
  VxMM mm;
  static VxRaw<XMLGrammarPoolImpl> pr; XMLGrammarPoolImpl* pool = &pr.obj;
  static long regobj[8], sp1[8], sp2[8];      // identities only: all operations on them are cut or not reached
  bool locked = nondet_bool(), modelValid = nondet_bool();
  *(MemoryManager**)&pool->fMemMgr = &mm;
  pool->fGrammarRegistry = (RefHashTableOf<Grammar>*)regobj; pool->fStringPool = (XMLStringPool*)sp1; pool->fSynchronizedStringPool = (XMLSynchronizedStringPool*)sp2;
  pool->fXSModel = 0; pool->fLocked = locked; pool->fXSModelIsValid = modelValid;
  StubGrammar g; vx_gtype = nondet_bool() ? Grammar::SchemaGrammarType : Grammar::DTDGrammarType;
  vx_reg_contains = nondet_bool(); vx_reg_orphan_result = nondet_bool() ? (void*)&g : (void*)0; vx_reg_get_result = (void*)&g;
  unsigned op = nondet_u8() % 5;
  if (op == 0) {
    bool nullg = nondet_bool();
    bool r = pool->XMLGrammarPoolImpl::cacheGrammar(nullg ? 0 : &g);
    VX_ASSERT(r == (!locked && !nullg && !vx_reg_contains), "cacheGrammar succeeds iff the pool is unlocked, the grammar non-null and its key not yet cached");
    VX_ASSERT(vx_reg_put == (r ? 1 : 0) && vx_reg_orphan == 0 && vx_reg_clear == 0, "cacheGrammar adds to the registry exactly when it reports success");
    if (r && modelValid && vx_gtype == Grammar::SchemaGrammarType) VX_ASSERT(!pool->fXSModelIsValid, "caching a schema grammar invalidates the XSModel");
    if (r) VX_REACH("grammar cached");
  } else if (op == 1) {
    Grammar* r = pool->XMLGrammarPoolImpl::orphanGrammar(KEY);
    VX_ASSERT(locked ? (r == 0 && vx_reg_orphan == 0) : (r == (Grammar*)vx_reg_orphan_result && vx_reg_orphan == 1), "orphanGrammar is refused (null, registry untouched) iff the pool is locked");
    if (!locked && r) VX_REACH("grammar orphaned");
  } else if (op == 2) {
    bool r = pool->XMLGrammarPoolImpl::clear();
    VX_ASSERT(r == !locked && vx_reg_clear == (locked ? 0 : 1), "clear is refused (false, registry untouched) iff the pool is locked");
    if (!locked) VX_ASSERT(!pool->fXSModelIsValid, "clear invalidates the XSModel");
  } else if (op == 3) {
    XMLStringPool* s = pool->XMLGrammarPoolImpl::getURIStringPool();
    VX_ASSERT(s == (locked ? (XMLStringPool*)sp2 : (XMLStringPool*)sp1), "the synchronised URI string pool is handed out iff the pool is locked");
  } else {
    Grammar* r = pool->XMLGrammarPoolImpl::retrieveGrammar((XMLGrammarDescription*)&g.d);
    VX_ASSERT(r == (Grammar*)vx_reg_get_result && vx_reg_mut == 0, "retrieveGrammar is a pure look-up whether locked or not");
  }
  if (locked) { VX_ASSERT(vx_reg_mut == 0, "a locked grammar pool is never modified"); VX_ASSERT(pool->fLocked && pool->fXSModelIsValid == modelValid, "flags of a locked pool are unchanged"); VX_REACH("locked pool"); }
}
