// Cut for C15/domreset.cpp: the parser's deletion list (RefVectorOf<DOMDocumentImpl>::addElement) -> recorder.
#include "vx.h"
extern int vx_kept_n; extern void* vx_kept_doc; extern void* vx_kept_vec;
extern "C" void vx_keep(void* vec, void* doc) asm("_ZN11xercesc_4_015BaseRefVectorOfINS_15DOMDocumentImplEE10addElementEPS1_");
extern "C" void vx_keep(void* vec, void* doc) { vx_kept_n++; vx_kept_doc = doc; vx_kept_vec = vec; }
