// Cut of the grammar registry RefHashTableOf<Grammar> (template instantiations removed from every TU): recorder with arbitrary answers.
#include "vx.h"
extern int vx_reg_mut, vx_reg_put, vx_reg_orphan, vx_reg_clear, vx_reg_read; extern bool vx_reg_contains; extern void* vx_reg_orphan_result; extern void* vx_reg_get_result;
#define T "_ZN11xercesc_4_014RefHashTableOfINS_7GrammarENS_12StringHasherEE"
#define TK "_ZNK11xercesc_4_014RefHashTableOfINS_7GrammarENS_12StringHasherEE"
extern "C" bool vx_containsKey(const void*, const void*) asm(TK "11containsKeyEPKv");
extern "C" bool vx_containsKey(const void*, const void*) { vx_reg_read++; return vx_reg_contains; }
extern "C" void vx_put(void*, void*, void*) asm(T "3putEPvPS1_");
extern "C" void vx_put(void*, void*, void*) { vx_reg_mut++; vx_reg_put++; }
extern "C" void* vx_get(void*, const void*) asm(T "3getEPKv");
extern "C" void* vx_get(void*, const void*) { vx_reg_read++; return vx_reg_get_result; }
extern "C" void* vx_orphanKey(void*, const void*) asm(T "9orphanKeyEPKv");
extern "C" void* vx_orphanKey(void*, const void*) { vx_reg_mut++; vx_reg_orphan++; return vx_reg_orphan_result; }
extern "C" void vx_removeAll(void*) asm(T "9removeAllEv");
extern "C" void vx_removeAll(void*) { vx_reg_mut++; vx_reg_clear++; }
