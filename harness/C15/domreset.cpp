// C15-P6: per-parse state of the DOM parser is returned to its constructed value before every parse (real AbstractDOMParser::reset, the
// function every parse()/parseFirst() starts with), whatever state the previous parse - possibly abandoned half way by a fatal error, an
// exception from a handler or parseReset() - left behind.  From an ARBITRARY prior state: afterwards no current parent / node / entity /
// document / doctype remains, the "inside the root element" flag and the adoption flag are clear, the internal-subset buffer is empty; a
// document the application did not adopt is handed to the parser's deletion list exactly once, an adopted one is not touched.
#include "vx.h"
#include "vx_open.h"
#include <xercesc/parsers/XercesDOMParser.hpp>
#include <xercesc/framework/XMLBuffer.hpp>
#include <xercesc/util/RefVectorOf.hpp>
#include "vx_close.h"
#define VX_STUB_XMLEXCEPTION
#define VX_STUB_XMEMORY
#include "vx_stubs.hpp"
int vx_kept_n; void* vx_kept_doc; void* vx_kept_vec;
extern "C" void* _ZTVN11xercesc_4_015XercesDOMParserE[];
extern "C" void harness_domreset(void) {
  VxMMFixed<112> mm;
  static VxRaw<XercesDOMParser> pr; XercesDOMParser* p = &pr.obj;      // (AbstractDOMParser is abstract; the concrete parser adds nothing reset() touches)
  *(void***)p = &_ZTVN11xercesc_4_015XercesDOMParserE[2];            // reset() calls the virtual resetDocType(): real vtable
  XMLBuffer isub(8, &mm); ((XMLBuffer**)&p->fPSVIHandler)[-1] = &isub;   // the reference member fInternalSubset (slot in front of fPSVIHandler)
  VX_ASSERT(&p->fInternalSubset == &isub, "harness: reference member bound");
  static long docobj[4], dtobj[4], nodeobj[4], vecobj[8];
  bool haveDoc = nondet_bool(), adopted = nondet_bool(), haveVec = nondet_bool();
  p->fMemoryManager = &mm;
  p->fDocument = haveDoc ? (DOMDocumentImpl*)docobj : 0; p->fDocumentAdoptedByUser = adopted; p->fDocumentVector = haveVec ? (RefVectorOf<DOMDocumentImpl>*)vecobj : 0;
  p->fDocumentType = nondet_bool() ? (DOMDocumentTypeImpl*)dtobj : 0;
  p->fCurrentParent = nondet_bool() ? (DOMNode*)nodeobj : 0; p->fCurrentNode = nondet_bool() ? (DOMNode*)nodeobj : 0; p->fCurrentEntity = nondet_bool() ? (DOMEntityImpl*)nodeobj : 0;
  p->fWithinElement = nondet_bool(); p->fParseInProgress = nondet_bool();
  if (nondet_bool()) { isub.append((XMLCh)'x'); }
  VX_ASSUME(haveVec || !(haveDoc && !adopted));       // (creating the deletion list allocates a heap vector: that path is not part of this harness)
  p->AbstractDOMParser::reset();
  VX_ASSERT(p->fDocument == 0 && p->fDocumentType == 0, "no document or doctype of the previous parse remains current");
  VX_ASSERT(p->fCurrentParent == 0 && p->fCurrentNode == 0 && p->fCurrentEntity == 0, "no current parent, node or entity of the previous parse remains");
  VX_ASSERT(!p->fWithinElement, "the inside-the-root-element flag is cleared (an abandoned parse leaves it set)");
  VX_ASSERT(!p->fDocumentAdoptedByUser, "the adoption flag is cleared");
  VX_ASSERT(isub.getLen() == 0, "the internal-subset buffer is empty");
  bool keep = haveDoc && !adopted;
  VX_ASSERT(vx_kept_n == (keep ? 1 : 0) && (!keep || (vx_kept_doc == (void*)docobj && vx_kept_vec == (void*)vecobj)), "a document the application did not adopt is kept for deletion exactly once; an adopted one is not");
  if (keep) VX_REACH("previous document kept for deletion"); else if (haveDoc) VX_REACH("adopted document left alone");
}
