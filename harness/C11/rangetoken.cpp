// C11-P1: the range algebra every character class rests on.  Ranges A, B (and C) are built by the real addRange from symbolic
// endpoints in [0, 0x10FFFF] (unsorted / overlapping / adjacent allowed); a symbolic script of set operations is applied by the
// real mergeRanges / subtractRanges / intersectRanges (+ sortRanges / compactRanges); for a symbolic character c the membership
// of c in the resulting list equals the set-theoretic result, and after compaction the list is sorted, disjoint and non-adjacent.
#include "vx.h"
#include "vx_open.h"
#include <xercesc/util/regx/RangeToken.hpp>
#include <xercesc/util/regx/Token.hpp>
#include "vx_close.h"
#define VX_STUB_XMLEXCEPTION
#define VX_STUB_XMEMORY
#include "vx_stubs.hpp"
#ifndef NA
#define NA 2
#endif
#ifndef NB
#define NB 2
#endif
#ifndef OPS
#define OPS 1
#endif
struct Spec { XMLInt32 lo[3], hi[3]; int n; };
static void mk(RangeToken& t, Spec& s, int maxn) {
  s.n = nondet_u8(); VX_ASSUME(s.n >= 1 && s.n <= maxn);
  for (int i = 0; i < maxn; i++) if (i < s.n) {
    s.lo[i] = (XMLInt32)nondet_u32(); s.hi[i] = (XMLInt32)nondet_u32();
    VX_ASSUME(s.lo[i] >= 0 && s.lo[i] <= 0x10FFFF && s.hi[i] >= 0 && s.hi[i] <= 0x10FFFF);
    t.addRange(s.lo[i], s.hi[i]);
    if (s.lo[i] > s.hi[i]) { XMLInt32 x = s.lo[i]; s.lo[i] = s.hi[i]; s.hi[i] = x; }   // addRange accepts either order
  }
}
static bool in(const Spec& s, XMLInt32 c, int maxn) { bool r = false; for (int i = 0; i < maxn; i++) if (i < s.n && s.lo[i] <= c && c <= s.hi[i]) r = true; return r; }
static bool inTok(const RangeToken& t, XMLInt32 c) { bool r = false; for (unsigned i = 0; i < 2 * (NA + NB + 2); i += 2) if (i < t.fElemCount && t.fRanges[i] <= c && c <= t.fRanges[i + 1]) r = true; return r; }
extern "C" void harness_rangetoken(void) {
  VxMMFixed<160> mm;   // 40 XMLInt32: more than any capacity reachable within the bound
  RangeToken a(Token::T_RANGE, &mm), b(Token::T_RANGE, &mm), c3(Token::T_RANGE, &mm);
#ifdef SMALLCAP
  a.fMaxCount = 4;      // force expand() on the second/third range
#endif
  Spec sa, sb, sc; mk(a, sa, NA); mk(b, sb, NB);
  XMLInt32 c = (XMLInt32)nondet_u32(); VX_ASSUME(c >= 0 && c <= 0x10FFFF);
  bool ina = in(sa, c, NA), inb = in(sb, c, NB);
  VX_ASSERT(inTok(a, c) == ina, "addRange: list denotes the union of the added ranges");
  bool threw = false; bool expect = ina;
  try {
#if OPS == 0
    VX_REACH("add only");
#else
#ifdef OP
    unsigned op = OP;
#else
    unsigned op = nondet_u8() % 3;
#endif
    if (op == 0) { a.mergeRanges(&b); expect = ina || inb; VX_REACH("merge"); }
    else if (op == 1) { a.subtractRanges(&b); expect = ina && !inb; VX_REACH("subtract"); }
    else { a.intersectRanges(&b); expect = ina && inb; VX_REACH("intersect"); }
#endif
#if OPS >= 2
    mk(c3, sc, 1); bool inc = in(sc, c, 1);
#ifdef OP2
    unsigned op2 = OP2;
#else
    unsigned op2 = nondet_u8() % 3;
#endif
    if (op2 == 0) { a.mergeRanges(&c3); expect = expect || inc; }
    else if (op2 == 1) { a.subtractRanges(&c3); expect = expect && !inc; VX_REACH("second op subtract"); }
    else { a.intersectRanges(&c3); expect = expect && inc; }
#endif
  } catch (const XMLException&) { threw = true; }
  VX_ASSERT(!threw, "range operations on well-formed lists never hit their internal-error throws");
  if (!threw) {
    VX_ASSERT(inTok(a, c) == expect, "result list denotes exactly union / difference / intersection");
    a.sortRanges(); a.compactRanges();
    VX_ASSERT(inTok(a, c) == expect, "sort + compact preserve the denoted set");
    for (unsigned i = 0; i + 3 < 2 * (NA + NB + 2); i += 2) if (i + 3 < a.fElemCount)
      VX_ASSERT(a.fRanges[i + 1] + 1 < a.fRanges[i + 2], "after compaction ranges are sorted, disjoint and non-adjacent");
    for (unsigned i = 0; i < 2 * (NA + NB + 2); i += 2) if (i < a.fElemCount) VX_ASSERT(a.fRanges[i] <= a.fRanges[i + 1], "range bounds ordered");
    VX_ASSERT(a.fElemCount <= a.fMaxCount, "element count within capacity");
#if !(defined(OP) && OP == 2 && NA == 1)
    if (a.fElemCount >= 4) VX_REACH("two or more ranges in result");
#else
    if (a.fElemCount == 2) VX_REACH("non-empty intersection");
#endif
  }
}
