// C11-P2: the membership test the matcher executes for every character-class step, and class negation.
// An arbitrary canonical range list (sorted, disjoint, non-adjacent; symbolic bounds in [0, 0x10FFFF]) is constructed directly,
// passed through the real sortRanges + compactRanges like RegularExpression::compile does, then
//   * RangeToken::match(c) (bitmap for c < 256 built by doCreateMap, linear scan from fNonMapIndex above) is compared with the
//     set-theoretic membership for a symbolic c, for T_RANGE and for T_NRANGE tokens, and asked a second time (cached map);
//   * RangeToken::complementRanges builds the negated class (TokenFactory::createRange is the cut: a fresh real RangeToken):
//     its list denotes exactly the complement in [0, 0x10FFFF], is canonical, and match() on it agrees.
#include "vx.h"
#include "vx_open.h"
#include <xercesc/util/regx/RangeToken.hpp>
#include <xercesc/util/regx/Token.hpp>
#include <xercesc/util/regx/TokenFactory.hpp>
#include "vx_close.h"
#define VX_STUB_XMLEXCEPTION
#define VX_STUB_XMEMORY
#include "vx_stubs.hpp"
#ifndef NA
#define NA 2
#endif
#define MAXR (NA + 2)
static RangeToken* vx_fresh;
static int vx_created;
// cut: the factory's bookkeeping vector is not the subject; the token it hands out is a real, empty T_RANGE / T_NRANGE RangeToken
RangeToken* TokenFactory::createRange(const bool isNegRange) {
  vx_created++; VX_ASSERT(!isNegRange, "complementRanges asks for a positive range token");
  return vx_fresh;            // a real, empty T_RANGE token constructed by the harness (no heap object with a vtable: cheaper to encode)
}
struct Spec { XMLInt32 lo[3], hi[3]; int n; };
// The operand is constructed DIRECTLY in its canonical representation (what sortRanges + compactRanges leave behind, which is what
// RegularExpression::compile and complementRanges itself establish first): n sorted, disjoint, non-adjacent ranges with symbolic bounds.
// (Building it with addRange/sort/compact - the subject of rangetoken_add - makes the query intractable: no verdict in 900 s / 12 GB.)
static void mk(RangeToken& t, Spec& s, int maxn, MemoryManager* mm) {
  s.n = nondet_u8(); VX_ASSUME(s.n >= 1 && s.n <= maxn);
  t.fRanges = (XMLInt32*)mm->allocate(t.fMaxCount * sizeof(XMLInt32));
  for (int i = 0; i < maxn; i++) if (i < s.n) {
    s.lo[i] = (XMLInt32)nondet_u32(); s.hi[i] = (XMLInt32)nondet_u32();
    VX_ASSUME(s.lo[i] >= 0 && s.lo[i] <= s.hi[i] && s.hi[i] <= 0x10FFFF);
    if (i > 0) VX_ASSUME(s.hi[i - 1] + 1 < s.lo[i]);
    t.fRanges[2 * i] = s.lo[i]; t.fRanges[2 * i + 1] = s.hi[i];
  }
  t.fElemCount = 2 * s.n; t.fSorted = true; t.fCompacted = nondet_bool();   // compactRanges on a canonical list must be the identity as well
}
static bool in(const Spec& s, XMLInt32 c, int maxn) { bool r = false; for (int i = 0; i < maxn; i++) if (i < s.n && s.lo[i] <= c && c <= s.hi[i]) r = true; return r; }
static bool inTok(const RangeToken& t, XMLInt32 c) { bool r = false; for (unsigned i = 0; i < 2 * MAXR; i += 2) if (i < t.fElemCount && t.fRanges[i] <= c && c <= t.fRanges[i + 1]) r = true; return r; }
extern "C" void harness_rangematch(void) {
  VxMMFixed<64> mm;     // fMaxCount (16) x 4 bytes: the initial array; expand() is out of reach within the bound
  bool neg = nondet_bool();
  RangeToken a(neg ? Token::T_NRANGE : Token::T_RANGE, &mm);
  RangeToken fresh(Token::T_RANGE, &mm); vx_fresh = &fresh;
  Spec sa; mk(a, sa, NA, &mm);
  XMLInt32 c = (XMLInt32)nondet_u32(); VX_ASSUME(c >= 0 && c <= 0x10FFFF);
  XMLInt32 d = (XMLInt32)nondet_u32(); VX_ASSUME(d >= 0 && d <= 0x10FFFF);
  bool inc = in(sa, c, NA), ind = in(sa, d, NA);
  bool threw = false;
  try {
    a.sortRanges(); a.compactRanges();
#if MODE == 0
    bool m1 = a.match(c);
    VX_ASSERT(m1 == (neg ? !inc : inc), "match(c) is membership in the class (T_RANGE) / in its complement (T_NRANGE)");
    bool m2 = a.match(d);
    VX_ASSERT(m2 == (neg ? !ind : ind), "second match on the same token (cached bitmap) is membership as well");
    VX_ASSERT(a.fNonMapIndex <= a.fElemCount && (a.fNonMapIndex & 1) == 0, "scan start index is an even index within the list");
    if (c < 256) VX_REACH("bitmap lookup"); else VX_REACH("linear scan above the bitmap");
    if (c < 256 && m1 && !neg) VX_REACH("bitmap hit");
    if (c >= 256 && m1 && !neg) VX_REACH("scan hit");
    if (neg) VX_REACH("negated token");
#else
    TokenFactory* tf = 0;   // createRange (cut above) does not touch the factory object
    RangeToken* r = RangeToken::complementRanges(&a, tf, &mm);
    VX_ASSERT(r != 0 && r != &a && vx_created == 1, "complement is a fresh token");
    VX_ASSERT(inTok(a, c) == inc, "operand still denotes the same set");
    VX_ASSERT(inTok(*r, c) == !inc, "complement list denotes exactly [0,0x10FFFF] minus the class");
    for (unsigned i = 0; i + 3 < 2 * MAXR; i += 2) if (i + 3 < r->fElemCount)
      VX_ASSERT(r->fRanges[i + 1] + 1 < r->fRanges[i + 2], "complement is sorted, disjoint and non-adjacent (it is marked compacted)");
    for (unsigned i = 0; i < 2 * MAXR; i += 2) if (i < r->fElemCount)
      VX_ASSERT(0 <= r->fRanges[i] && r->fRanges[i] <= r->fRanges[i + 1] && r->fRanges[i + 1] <= 0x10FFFF, "complement bounds ordered and inside the code space");
    VX_ASSERT(r->fElemCount <= r->fMaxCount && (r->fElemCount & 1) == 0, "element count even and within capacity");
    if (r->fElemCount == 0) VX_REACH("complement of the full code space is empty");
    if (r->fElemCount >= 4) VX_REACH("complement with a gap");
    if (r->fElemCount == 2 * (NA + 1)) VX_REACH("complement with the maximal number of ranges");
#endif
  } catch (const XMLException&) { threw = true; }
  VX_ASSERT(!threw, "no internal-error throw on a well-formed list");
}
