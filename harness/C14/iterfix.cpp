// C14-P3: NodeIterator fix-up when a node is about to be removed (real DOMNodeIteratorImpl::removeNode with its helpers matchNodeOrParent,
// nextNode(node, visitChildren), previousNode(node), walking a tree of REAL DOMElementImpl / DOMTextImpl objects through their virtual
// getters).  The tree is fixed -  R( A( A1, A2 ), B )  - every link set as the DOM keeps it; the iterator state is ARBITRARY: reference node
// any of the five nodes, position before or after it; the node announced for removal is any of the five (or none).  DOM Level 2 Traversal
// 1.1.1: if the reference node lies in the subtree being removed, an iterator positioned after it takes the node preceding that subtree in
// document order as new reference (still after it); one positioned before it takes the first node following the subtree (still before it),
// or, if the subtree is the end of the list, the node preceding it with the position flipped to after; otherwise nothing changes.  In no
// case is the new reference node inside the removed subtree.
#include "vx.h"
#include "vx_open.h"
#include <xercesc/dom/impl/DOMNodeIteratorImpl.hpp>
#include <xercesc/dom/impl/DOMElementImpl.hpp>
#include <xercesc/dom/impl/DOMTextImpl.hpp>
#include <xercesc/dom/impl/DOMDocumentImpl.hpp>
#include <xercesc/dom/impl/DOMStringPool.hpp>
#include <xercesc/dom/DOMException.hpp>
#include "vx_close.h"
#define VX_STUB_XMLEXCEPTION
#define VX_STUB_XMEMORY
#include "vx_stubs.hpp"
XMLCh vx_pooled[17];
// document order (preorder): 0 R, 1 A, 2 A1, 3 A2, 4 B;  subtree of node i = [i, END[i])
static const int END[5] = { 5, 4, 3, 4, 5 };
static DOMNode* nd[5];
#define SETLINKS(obj, owner, first, prevp, nextp) do { (obj)->fNode.fOwnerNode = (owner); (obj)->fNode.isOwned(true); (obj)->fNode.isFirstChild(first); \
    (obj)->fChild.previousSibling = (prevp); (obj)->fChild.nextSibling = (nextp); } while (0)
extern "C" void harness_iterfix(void) {
  VxMM mm; XMLPlatformUtils::fgMemoryManager = &mm;
  static VxRaw<DOMDocumentImpl> dr; DOMDocumentImpl* doc = &dr.obj; doc->fMemoryManager = &mm;
  static const XMLCh none[] = { 0 }, en[] = { 'e', 0 };
  static VxRaw<DOMElementImpl> rR, rA; static VxRaw<DOMTextImpl> rA1, rA2, rB;
  DOMElementImpl* R = new (&rR.obj) DOMElementImpl((DOMDocument*)doc, en); DOMElementImpl* A = new (&rA.obj) DOMElementImpl((DOMDocument*)doc, en);
  DOMTextImpl* A1 = new (&rA1.obj) DOMTextImpl((DOMDocument*)doc, none); DOMTextImpl* A2 = new (&rA2.obj) DOMTextImpl((DOMDocument*)doc, none); DOMTextImpl* B = new (&rB.obj) DOMTextImpl((DOMDocument*)doc, none);
  nd[0] = R; nd[1] = A; nd[2] = A1; nd[3] = A2; nd[4] = B;
  // R( A( A1, A2 ), B ): first child's previousSibling points at the last child
  R->fNode.fOwnerNode = (DOMNode*)doc; R->fNode.isOwned(false); R->fChild.previousSibling = 0; R->fChild.nextSibling = 0; R->fParent.fFirstChild = A;
  SETLINKS(A, R, true, (DOMNode*)B, (DOMNode*)B); A->fParent.fFirstChild = A1;
  SETLINKS(B, R, false, (DOMNode*)A, (DOMNode*)0);
  SETLINKS(A1, A, true, (DOMNode*)A2, (DOMNode*)A2);
  SETLINKS(A2, A, false, (DOMNode*)A1, (DOMNode*)0);
  // arbitrary iterator state
  static VxRaw<DOMNodeIteratorImpl> ir; DOMNodeIteratorImpl* it = &ir.obj;
#ifdef REM
  unsigned cur = nondet_u8() % 5, rem = REM; bool fwd = nondet_bool();          // one harness per node announced for removal
#else
  unsigned cur = nondet_u8() % 5, rem = nondet_u8() % 6; bool fwd = nondet_bool();
#endif
  it->fRoot = R; it->fDocument = (DOMDocument*)doc; it->fWhatToShow = DOMNodeFilter::SHOW_ALL; it->fNodeFilter = 0; it->fExpandEntityReferences = true; it->fDetached = false;
  it->fCurrentNode = nd[cur]; it->fForward = fwd;
  it->removeNode(rem < 5 ? nd[rem] : 0);
  // reference
  bool hit = rem >= 1 && rem < 5 && cur >= rem && cur < (unsigned)END[rem];          // reference node inside the subtree removed (the root is never removed)
  unsigned wantCur = cur; bool wantFwd = fwd;
  if (hit) { if (fwd) wantCur = rem - 1; else if (END[rem] < 5) wantCur = END[rem]; else { wantCur = rem - 1; wantFwd = true; } }
  VX_ASSERT(it->fCurrentNode == nd[wantCur], "the new reference node is the one DOM Traversal prescribes (predecessor of the removed subtree, or its first successor)");
  VX_ASSERT(it->fForward == wantFwd, "the position relative to the reference node is kept, or flipped when the end of the list is removed");
  if (hit) { unsigned got = it->fCurrentNode == nd[0] ? 0 : it->fCurrentNode == nd[1] ? 1 : it->fCurrentNode == nd[2] ? 2 : it->fCurrentNode == nd[3] ? 3 : 4;
             VX_ASSERT(!(got >= rem && got < (unsigned)END[rem]), "the iterator never keeps a reference into the removed subtree"); }
  if (hit && !fwd) VX_REACH("reference node of a backward iterator removed");
  if (hit && fwd) VX_REACH("reference node of a forward iterator removed");
  if (!hit) VX_REACH("reference node outside the removed subtree");
}
