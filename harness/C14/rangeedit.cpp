// C14-P2: a live Range across a REAL character-data edit, end to end: DOMTextImpl::insertData / deleteData / replaceData (real
// DOMCharacterDataImpl, real call sites of the Range notification with the arguments they really pass) on a text node with one Range
// registered on the document (the document object is raw storage whose getRanges() slot answers with a real RefVectorOf<DOMRangeImpl>).
// For EVERY content of <= N units, every valid pair of boundary offsets in the node, every edit offset/count (64-bit) and inserted string
// of <= 2 units: afterwards the Range's boundary points are where DOM Level 2 Range 2.12 puts them, lie within the new length, start <= end;
// a refused edit (INDEX_SIZE_ERR) leaves the Range untouched.
#include "vx.h"
#include "vx_open.h"
#include <xercesc/dom/impl/DOMTextImpl.hpp>
#include <xercesc/dom/impl/DOMDocumentImpl.hpp>
#include <xercesc/dom/impl/DOMRangeImpl.hpp>
#include <xercesc/dom/impl/DOMStringPool.hpp>
#include <xercesc/dom/DOMException.hpp>
#include "vx_close.h"
#define VX_STUB_XMLEXCEPTION
#define VX_STUB_XMEMORY
#include "vx_stubs.hpp"
#ifndef N
#define N 2
#endif
#define CAP 16
XMLCh vx_pooled[CAP + 1];
static VxRaw<Ranges> vx_ranges; static DOMRangeImpl* vx_rlist[1];
extern "C" void* vx_getRanges(void*) { return &vx_ranges.obj; }
typedef Ranges* (DOMDocumentImpl::*VxGR)() const;
extern "C" { extern const VxGR vx_vslot_vx_getRanges; __attribute__((used)) const VxGR vx_vslot_vx_getRanges = &DOMDocumentImpl::getRanges; }
static void* vx_docvt[200];
extern "C" void harness_rangeedit(void) {
  VxMM mm; XMLPlatformUtils::fgMemoryManager = &mm;
  static VxRaw<DOMDocumentImpl> dr; DOMDocumentImpl* doc = &dr.obj; doc->fRanges = 0; doc->fMemoryManager = &mm;
  { VxGR pmf = &DOMDocumentImpl::getRanges; unsigned long off; memcpy(&off, &pmf, sizeof off);
    vx_docvt[2 + (off - 1) / 8] = (void*)&vx_getRanges; *(void***)doc = &vx_docvt[2]; }
  static VxRaw<DOMBuffer> br; DOMBuffer* buf = &br.obj; static XMLCh store[CAP + 1];
  static VxRaw<DOMTextImpl> tr;
  static const XMLCh none[] = { 0 };
  DOMTextImpl* t = new (&tr.obj) DOMTextImpl((DOMDocument*)doc, none);
  XMLSize_t len = nondet_u64(); VX_ASSUME(len <= N);
  for (int i = 0; i < N; i++) { store[i] = nondet_u16(); VX_ASSUME(store[i] != 0); } store[len] = 0;
  buf->fBuffer = store; buf->fIndex = len; buf->fCapacity = CAP; buf->fDoc = doc;
  t->fCharacterData.fDataBuf = buf; t->fCharacterData.fDoc = doc;
  // one live Range with both boundary points in the text node
  static VxRaw<DOMRangeImpl> rr; DOMRangeImpl* r = &rr.obj;
  XMLSize_t so = nondet_u64(), eo = nondet_u64(); VX_ASSUME(so <= eo && eo <= len);
  r->fStartContainer = t; r->fStartOffset = so; r->fEndContainer = t; r->fEndOffset = eo; r->fCollapsed = (so == eo);
  r->fDocument = (DOMDocument*)doc; r->fDetached = false; r->fRemoveChild = 0; r->fMemoryManager = &mm;
  vx_rlist[0] = r; Ranges* rv = &vx_ranges.obj; rv->fAdoptedElems = false; rv->fCurCount = 1; rv->fMaxCount = 1; rv->fElemList = vx_rlist; rv->fMemoryManager = &mm;
  XMLSize_t off = nondet_u64(), cnt = nondet_u64();
  XMLCh ins[3]; ins[0] = nondet_u16(); ins[1] = nondet_u16(); ins[2] = 0; XMLSize_t il = ins[0] ? (ins[1] ? 2 : 1) : 0;
#ifdef OP
  unsigned op = OP;
#else
  unsigned op = 1 + nondet_u8() % 3;
#endif
  int code = -1;
  try {
    if (op == 1) t->insertData(off, ins);
    else if (op == 2) t->deleteData(off, cnt);
    else t->replaceData(off, cnt, ins);
  } catch (const DOMException& e) { code = e.code; }
  if (off > len) {
    VX_ASSERT(code == DOMException::INDEX_SIZE_ERR, "offset beyond the length raises INDEX_SIZE_ERR");
    VX_ASSERT(r->fStartContainer == t && r->fEndContainer == t && r->fStartOffset == so && r->fEndOffset == eo, "a refused edit leaves the live Range untouched");
    VX_REACH("edit refused");
    return;
  }
  VX_ASSERT(code == -1, "no exception for an offset within the data");
  XMLSize_t c2 = (cnt > len - off) ? len - off : cnt;       // DOM: count clamped to the end
  XMLSize_t del = op == 1 ? 0 : c2, add = op == 2 ? 0 : il;
  // DOM Range: points inside the deleted run move to its start, points behind it move left by its length; then points behind the insertion
  // offset move right by the inserted length
  XMLSize_t xs = so > off + del ? so - del : (so > off ? off : so), xe = eo > off + del ? eo - del : (eo > off ? off : eo);
  if (xs > off) xs += add; if (xe > off) xe += add;
  XMLSize_t nl = len - del + add;
  VX_ASSERT(buf->fIndex == nl, "length after the edit");
  VX_ASSERT(r->fStartContainer == t && r->fEndContainer == t, "the Range stays in the edited node");
  VX_ASSERT(r->fStartOffset == xs, "start boundary point after the edit is where DOM Range puts it");
  VX_ASSERT(r->fEndOffset == xe, "end boundary point after the edit is where DOM Range puts it");
  VX_ASSERT(r->fStartOffset <= r->fEndOffset && r->fEndOffset <= buf->fIndex, "the Range stays valid: start <= end <= length");
  if (so > off && xs != so) VX_REACH("start point moved by the edit");
  if (eo > off && so <= off) VX_REACH("edit inside the Range");
}
