// C14-P1: Range boundary-point fix-up under character-data edits (real DOMRangeImpl::updateRangeForInsertedText / updateRangeForDeletedText /
// updateSplitInfo / receiveReplacedText, the functions DOMCharacterDataImpl::insertData/deleteData/setNodeValue and DOM*Impl::splitText call for
// every live Range of the document).  One step from an ARBITRARY valid range state: containers drawn from a real Text node, a real Comment node
// and a real DocumentFragment (real constructors, vtables - getNodeType is dispatched virtually), offsets / lengths / edit position / edit
// size arbitrary 62-bit values.  Afterwards both boundary points are where DOM Level 2 Range (2.12 "Range modification under document mutation")
// puts them - a point behind inserted text moves by the inserted length, a point inside deleted text moves to its start, a point behind it
// moves left by the deleted length, a point behind a split moves into the new node - and they are valid: offset within the (new) length of the
// container, start not after end.
#include "vx.h"
#include "vx_open.h"
#include <xercesc/dom/impl/DOMRangeImpl.hpp>
#include <xercesc/dom/impl/DOMTextImpl.hpp>
#include <xercesc/dom/impl/DOMCommentImpl.hpp>
#include <xercesc/dom/impl/DOMDocumentFragmentImpl.hpp>
#include <xercesc/dom/impl/DOMDocumentImpl.hpp>
#include <xercesc/dom/DOMException.hpp>
#include "vx_close.h"
#define VX_STUB_XMLEXCEPTION
#define VX_STUB_XMEMORY
#include "vx_stubs.hpp"
XMLCh vx_pooled[17];
#define BIG (1ULL << 62)
extern "C" void harness_rangetext(void) {
  VxMM mm; XMLPlatformUtils::fgMemoryManager = &mm;
  static VxRaw<DOMDocumentImpl> dr; DOMDocumentImpl* doc = &dr.obj; doc->fRanges = 0; doc->fMemoryManager = &mm;
  static const XMLCh none[] = { 0 };
  static VxRaw<DOMTextImpl> r0, r3; static VxRaw<DOMCommentImpl> r1; static VxRaw<DOMDocumentFragmentImpl> r2;
  DOMNode* nd[4];
  nd[0] = new (&r0.obj) DOMTextImpl((DOMDocument*)doc, none);
  nd[1] = new (&r1.obj) DOMCommentImpl((DOMDocument*)doc, none);
  nd[2] = new (&r2.obj) DOMDocumentFragmentImpl((DOMDocument*)doc);
  nd[3] = new (&r3.obj) DOMTextImpl((DOMDocument*)doc, none);            // the node splitText creates
  XMLSize_t len[4]; for (int i = 0; i < 3; i++) { len[i] = nondet_u64(); VX_ASSUME(len[i] < BIG); } len[3] = 0;
  // arbitrary valid range
  static VxRaw<DOMRangeImpl> rr; DOMRangeImpl* r = &rr.obj;
  unsigned sc = nondet_u8(), ec = nondet_u8(); VX_ASSUME(sc < 3 && ec < 3);
  XMLSize_t so = nondet_u64(), eo = nondet_u64();
  VX_ASSUME(so <= len[sc] && eo <= len[ec]); if (sc == ec) VX_ASSUME(so <= eo);
  r->fStartContainer = nd[sc]; r->fStartOffset = so; r->fEndContainer = nd[ec]; r->fEndOffset = eo;
  r->fCollapsed = (sc == ec && so == eo); r->fDocument = (DOMDocument*)doc; r->fDetached = false; r->fRemoveChild = 0; r->fMemoryManager = &mm;
  // arbitrary edit of one of the two character-data nodes, with the arguments the call sites pass (deleteData clamps count to the end first)
#ifdef OP
  unsigned op = OP;
#else
  unsigned op = nondet_u8(); VX_ASSUME(op < 4);
#endif
  unsigned n = nondet_u8(); VX_ASSUME(n < 2);
  XMLSize_t off = nondet_u64(), cnt = nondet_u64(); VX_ASSUME(off <= len[n] && cnt < BIG);
  unsigned xsc = sc, xec = ec; XMLSize_t xso = so, xeo = eo;          // expected (DOM Range)
  if (op == 0) {            // insertData(off, <cnt units>)
    r->updateRangeForInsertedText(nd[n], off, cnt);
    if (sc == n && so > off) xso = so + cnt;
    if (ec == n && eo > off) xeo = eo + cnt;
    len[n] += cnt;
  } else if (op == 1) {     // deleteData(off, cnt)   (cnt already clamped: off + cnt <= length)
    VX_ASSUME(cnt <= len[n] - off);
    r->updateRangeForDeletedText(nd[n], off, cnt);
    if (sc == n) xso = so > off + cnt ? so - cnt : (so > off ? off : so);
    if (ec == n) xeo = eo > off + cnt ? eo - cnt : (eo > off ? off : eo);
    len[n] -= cnt;
  } else if (op == 2) {     // splitText(off): units off.. move to the new node nd[3]
    r->updateSplitInfo(nd[n], nd[3], off);
    if (sc == n && so > off) { xsc = 3; xso = so - off; }
    if (ec == n && eo > off) { xec = 3; xeo = eo - off; }
    len[3] = len[n] - off; len[n] = off;
  } else {                  // setData / setNodeValue: whole content replaced (new length cnt)
    r->receiveReplacedText(nd[n]);
    if (sc == n) xso = 0;
    if (ec == n) xeo = 0;
    len[n] = cnt;
  }
  VX_ASSERT(r->fStartContainer == nd[xsc] && r->fStartOffset == xso, "start boundary point after a text edit is where DOM Range puts it");
  VX_ASSERT(r->fEndContainer == nd[xec] && r->fEndOffset == xeo, "end boundary point after a text edit is where DOM Range puts it");
  unsigned asc = r->fStartContainer == nd[0] ? 0 : r->fStartContainer == nd[1] ? 1 : r->fStartContainer == nd[2] ? 2 : 3;
  unsigned aec = r->fEndContainer == nd[0] ? 0 : r->fEndContainer == nd[1] ? 1 : r->fEndContainer == nd[2] ? 2 : 3;
  VX_ASSERT(r->fStartOffset <= len[asc] && r->fEndOffset <= len[aec], "boundary offsets stay within the container's new length");
  if (asc == aec) VX_ASSERT(r->fStartOffset <= r->fEndOffset, "start is not after end");
  if (sc == n && ec == n && so > off && so < eo) VX_REACH("both points behind the edit position in the edited node");
  if (sc == 2 && ec == n) VX_REACH("start in a non-text container");
  if (op == 2) { if (xsc == 3 || xec == 3) VX_REACH("point moved into the split-off node"); }
  else if (ec == n && xeo != eo) VX_REACH("end offset moved by the edit");
}
