// C01-P3: string kernels that every layer applies to untrusted text (real XMLString::patternMatch, trim, subString, indexOf(ch, from),
// lastIndexOf(ch, from), regionMatches / validateRegion).  For EVERY zero-terminated text of <= N units and pattern of <= M units in exactly
// sized buffers, every index argument (64-bit / int): the result equals the obvious specification (first occurrence, trimmed copy, the
// requested slice, occurrence at or after / before the index), out-of-range indexes raise ArrayIndexOutOfBoundsException (or return false),
// and nothing outside the buffers is touched.
#include "vx.h"
#include "vx_open.h"
#include <xercesc/util/XMLString.hpp>
#include <xercesc/util/ArrayIndexOutOfBoundsException.hpp>
#include "vx_close.h"
#define VX_STUB_XMLEXCEPTION
#define VX_STUB_XMEMORY
#include "vx_stubs.hpp"
#ifndef N
#define N 5
#endif
#define M 3
static bool ws(XMLCh c) { return c == 0x20 || c == 0x9 || c == 0xA || c == 0xD; }
extern "C" void harness_strkernels(void) {
  VxMM mm;
  static XMLCh text[N + 1], pat[M + 1], out[N + 1];
  XMLSize_t tl = nondet_u64(), pl = nondet_u64(); VX_ASSUME(tl <= N && pl <= M);
  XMLCh t[N + 1], p[M + 1];
  for (int i = 0; i < N; i++) { t[i] = nondet_u16(); if ((XMLSize_t)i < tl) VX_ASSUME(t[i] != 0); else t[i] = 0; text[i] = t[i]; } t[N] = 0; text[N] = 0;
  for (int i = 0; i < M; i++) { p[i] = nondet_u16(); if ((XMLSize_t)i < pl) VX_ASSUME(p[i] != 0); else p[i] = 0; pat[i] = p[i]; } p[M] = 0; pat[M] = 0;
  unsigned op = nondet_u8() % 5;
  if (op == 0) {                                   // patternMatch: index of the first occurrence, -1 if none or if either string is empty
    int got = XMLString::patternMatch(text, pat); int want = -1;
    if (tl > 0 && pl > 0) for (XMLSize_t i = 0; i < N; i++) if (want < 0 && i + pl <= tl) { bool m = true; for (XMLSize_t k = 0; k < M; k++) if (k < pl && t[i + k] != p[k]) m = false; if (m) want = (int)i; }
    VX_ASSERT(got == want, "patternMatch returns the index of the first occurrence of the pattern, or -1");
    if (want > 0 && pl >= 2) VX_REACH("pattern found after a false start");
  } else if (op == 1) {                            // trim
    XMLString::trim(text);
    XMLSize_t a = 0, b = tl; while (a < tl && a < N && ws(t[a])) a++; while (b > a && ws(t[b - 1])) b--;
    for (XMLSize_t i = 0; i <= N; i++) if (i <= b - a) VX_ASSERT(text[i] == (i < b - a ? t[a + i] : 0), "trim removes exactly the leading and trailing white space");
    if (a > 0 && b < tl) VX_REACH("trimmed on both sides");
  } else if (op == 2) {                            // subString(target, src, start, end)
    XMLSize_t st = nondet_u64(), en = nondet_u64(); bool threw = false; VX_ASSUME(en <= N || en > tl);      // (the target buffer holds N units + terminator)
    try { XMLString::subString(out, text, st, en, &mm); } catch (const XMLException&) { threw = true; }
    bool bad = st > en || en > tl;
    VX_ASSERT(threw == bad, "subString refuses exactly the index pairs outside the string");
    if (!bad) { for (XMLSize_t i = 0; i <= N; i++) if (i <= en - st) VX_ASSERT(out[i] == (i < en - st ? t[st + i] : 0), "subString copies exactly [start, end)"); if (en - st >= 2) VX_REACH("slice of two or more units"); }
  } else if (op == 3) {                            // indexOf / lastIndexOf with a start index
    XMLCh c = nondet_u16(); XMLSize_t from = nondet_u64(); bool threw = false; int got = -2;
    bool last = nondet_bool();
    try { got = last ? XMLString::lastIndexOf(text, c, from, &mm) : XMLString::indexOf(text, c, from, &mm); } catch (const XMLException&) { threw = true; }
    bool bad = last ? (tl == 0 ? from != 0 && false || from >= tl && tl > 0 || (tl == 0) : from >= tl) : from >= tl;
    int want = -1;
    if (!last) { for (XMLSize_t i = 0; i < N; i++) if (want < 0 && i >= from && i < tl && t[i] == c) want = (int)i; }
    else { for (XMLSize_t i = 0; i < N; i++) if (i <= from && i < tl && t[i] == c) want = (int)i; }
    if (threw) VX_ASSERT(from >= tl, "a start index inside the string is never refused");
    else if (from < tl) VX_ASSERT(got == want, "indexOf / lastIndexOf find the first occurrence at or after / the last at or before the start index");
    (void)bad; if (!threw && want >= 1) VX_REACH("character found");
  } else {                                         // regionMatches
    int o1 = (int)nondet_u32(), o2 = (int)nondet_u32(); XMLSize_t cnt = nondet_u64();
    bool got = XMLString::regionMatches(text, o1, pat, o2, cnt);
    bool valid = o1 >= 0 && o2 >= 0 && cnt <= N && (XMLSize_t)o1 + cnt <= tl && (XMLSize_t)o2 + cnt <= pl;
    bool eq = valid; if (valid) for (XMLSize_t k = 0; k < M; k++) if (k < cnt && t[o1 + k] != p[o2 + k]) eq = false;
    VX_ASSERT(got == eq, "regionMatches is true exactly for in-range regions with equal content");
    if (got && cnt >= 2) VX_REACH("regions of two or more units match");
  }
}
