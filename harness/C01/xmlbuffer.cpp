// C01-P2: XMLBuffer, the growable buffer every name, attribute value and run of character data is accumulated in (real append(ch) /
// append(chars,count) / append(chars) / set + ensureCapacity with and without a "buffer full" handler and maximum size).  One operation from
// an ARBITRARY valid state (capacity, fill level, content, handler/maximum all symbolic): afterwards the index is within the capacity, the
// block in use is large enough for capacity + terminator (so every store was inside the block), the content is the old content - or
// nothing, if the full handler emptied the buffer - followed by the appended units, and a request that cannot be served throws and leaves
// the buffer as it was.
#include "vx.h"
#include "vx_open.h"
#include <xercesc/framework/XMLBuffer.hpp>
#include "vx_close.h"
#define VX_STUB_XMLEXCEPTION
#define VX_STUB_XMEMORY
#include "vx_stubs.hpp"
#define MAXCAP 5
#define MAXADD 3
#define BLK 64
// every block is BLK bytes; the manager remembers the size asked for the block most recently handed out
struct SizedMM : MemoryManager {
  XMLSize_t lastReq; unsigned long live;
  SizedMM() : lastReq(0), live(0) {}
  void* allocate(XMLSize_t n) { VX_ASSERT(n <= BLK, "allocation request within the modelled block size"); VX_ASSUME(n <= BLK); void* p = malloc(BLK); VX_ASSUME(p != 0); lastReq = n; live++; return p; }
  void deallocate(void* p) { if (p) live--; free(p); }
  MemoryManager* getExceptionMemoryManager() { return this; }
};
static bool h_empties, h_ok; static int h_calls; static XMLSize_t h_seen_len;
struct Handler : XMLBufferFullHandler {
  bool bufferFull(XMLBuffer& b) { h_calls++; h_seen_len = b.getLen(); if (h_empties) b.reset(); return h_ok; }
};
extern "C" void harness_xmlbuffer(void) {
  SizedMM mm; Handler hd;
  static VxRaw<XMLBuffer> br; XMLBuffer* b = &br.obj;
  XMLSize_t cap = nondet_u64(), idx = nondet_u64(); VX_ASSUME(cap <= MAXCAP && idx <= cap);
  XMLCh* blk = (XMLCh*)mm.allocate((cap + 1) * sizeof(XMLCh)); XMLSize_t blkUnits = cap + 1;
  XMLCh old[MAXCAP]; for (int i = 0; i < MAXCAP; i++) { old[i] = nondet_u16(); if ((XMLSize_t)i < idx) blk[i] = old[i]; }
  bool withHandler = nondet_bool(); XMLSize_t full = nondet_u64(); VX_ASSUME(full >= 1 && full <= 8); if (withHandler) VX_ASSUME(cap <= full);
  h_empties = nondet_bool(); h_ok = nondet_bool();
  b->fIndex = idx; b->fCapacity = cap; b->fFullSize = withHandler ? full : 0; b->fUsed = false; *(MemoryManager**)&b->fMemoryManager = &mm; b->fFullHandler = withHandler ? &hd : 0; b->fBuffer = blk;
  XMLCh add[MAXADD + 1]; XMLSize_t n = nondet_u64(); VX_ASSUME(n >= 1 && n <= MAXADD);
  for (int i = 0; i < MAXADD; i++) { add[i] = nondet_u16(); VX_ASSUME(add[i] != 0); } add[n] = 0;
#ifdef OP
  unsigned op = OP;
#else
  unsigned op = nondet_u8() % 4;
#endif
  bool threw = false;
  try {
    if (op == 0) { n = 1; b->append(add[0]); }
    else if (op == 1) b->append(add, n);
    else if (op == 2) b->append(add);
    else { idx = 0; b->set(add, n); }
  } catch (const XMLException&) { threw = true; }
  if (b->fBuffer != blk) blkUnits = mm.lastReq / sizeof(XMLCh);
  VX_ASSERT(b->fIndex <= b->fCapacity, "the fill index never exceeds the capacity");
  VX_ASSERT(b->fCapacity + 1 <= blkUnits, "the block in use holds capacity + 1 units (every store was inside the block)");
  if (withHandler) VX_ASSERT(b->fCapacity <= full, "the buffer never grows beyond its maximum size");
  bool emptied = h_calls > 0 && h_empties;
  if (!threw) {
    XMLSize_t base = emptied ? 0 : idx;
    VX_ASSERT(b->fIndex == base + n, "length = kept content + appended units");
    for (XMLSize_t i = 0; i < MAXCAP + MAXADD; i++) if (i < b->fIndex && b->fIndex == base + n) VX_ASSERT(b->fBuffer[i] == (i < base ? old[i] : add[i - base]), "content = kept content followed by the appended units");
    if (b->fBuffer != blk) VX_REACH("buffer reallocated");
    if (emptied) { VX_ASSERT(h_seen_len == idx, "the full handler saw the complete content before emptying the buffer"); VX_REACH("full handler emptied the buffer"); }
  } else {
    VX_ASSERT(withHandler && h_calls == 1, "only a buffer with a maximum size refuses to grow, after giving its handler one chance");
    VX_ASSERT(b->fIndex == (h_empties ? 0 : idx), "a refused request appends nothing");
    VX_REACH("request refused");
  }
  VX_ASSERT(h_calls <= 1, "the full handler is called at most once per request");
}
