// C01-P1 (token scanners on the buffer layer): XMLReader::getName / getNCName from an ARBITRARY valid buffer state (symbolic indexes under
// the representation invariant, symbolic buffer contents INCLUDING the stale area beyond fCharsAvail) with the entity at its end (the stream
// has nothing more, so every refill attempt comes back empty).  Asserted: the representation invariant still holds afterwards (a violated
// invariant makes the next refill compute a negative "spare" count and corrupts memory), exactly the consumed characters were appended to
// the name buffer and they all are name characters, the column advanced by the same amount.  Window via the XERCES_VERIF_HOOKS size hook.
#include "vx.h"
#include "vx_open.h"
#include <xercesc/internal/XMLReader.hpp>
#include <xercesc/framework/XMLBuffer.hpp>
#include <xercesc/util/XMLUTF8Transcoder.hpp>
#include <xercesc/util/BinInputStream.hpp>
#include "vx_close.h"
#define VX_STUB_XMLEXCEPTION
#define VX_STUB_XMLTRANSCODER
#define VX_STUB_XMEMORY
#define VX_STUB_NUMTOTEXT
#include "vx_stubs.hpp"
struct EofStream : BinInputStream { XMLFilePos curPos() const { return 0; } XMLSize_t readBytes(XMLByte* const, const XMLSize_t) { return 0; } const XMLCh* getContentType() const { return 0; } };
static XMLCh EMPTY[1] = { 0 };
XMLReader* vx_rd; XMLSize_t vx_app_total; int vx_app_bad; XMLSize_t vx_app_next;   // recorder state of the cut XMLBuffer::append (C01/appendstub.cpp)
extern "C" void harness_getname(void) {
  VxMMFixed<128> mm; static const XMLCh nm[] = { 'U', 0 };
  XMLUTF8Transcoder tc(nm, XMLReader::kCharBufSize, &mm); EofStream st;
  static VxRaw<XMLReader> rr; XMLReader* r = &rr.obj;
  r->fCurCol = 1; r->fCurLine = 1; r->fEncoding = XMLRecognizer::UTF_8; r->fEncodingStr = EMPTY; r->fForcedEncoding = true; r->fNoMore = false; r->fPublicId = 0;
  r->fRawBufIndex = 0; r->fRawBytesAvail = 0; r->fLowWaterMark = 0; r->fReaderNum = 1; r->fRefFrom = XMLReader::RefFrom_NonLiteral; r->fSentTrailingSpace = false;
  r->fSource = XMLReader::Source_External; r->fSrcOfsBase = 0; r->fSrcOfsSupported = false; r->fCalculateSrcOfs = nondet_bool(); r->fSystemId = EMPTY; r->fStream = &st; r->fSwapped = false;
  r->fThrowAtEnd = false; r->fTranscoder = &tc; r->fType = XMLReader::Type_General; r->fgCharCharsTable = XMLChar1_0::fgCharCharsTable1_0; r->fNEL = false;
  r->fXMLVersion = XMLReader::XMLV1_0; r->fMemoryManager = &mm;
  for (unsigned i = 0; i < XMLReader::kCharBufSize; i++) { r->fCharBuf[i] = nondet_u16(); r->fCharSizeBuf[i] = 1; r->fCharOfsBuf[i] = 0; }
  XMLSize_t avail = nondet_u64(), idx = nondet_u64(); VX_ASSUME(avail <= XMLReader::kCharBufSize && idx <= avail);
  r->fCharsAvail = avail; r->fCharIndex = idx;
  vx_rd = r; vx_app_total = 0; vx_app_bad = 0; vx_app_next = idx;
  XMLCh before[XMLReader::kCharBufSize]; for (unsigned i = 0; i < XMLReader::kCharBufSize; i++) before[i] = r->fCharBuf[i];
  // the name buffer: a real XMLBuffer object over a static typed array (its heap growth is not reachable: capacity 32 > window)
  static VxRaw<XMLBuffer> nbr; static XMLCh nstore[33]; XMLBuffer& name = nbr.obj;
  name.fBuffer = nstore; name.fIndex = 0; name.fCapacity = 32; name.fFullSize = 0; name.fUsed = false; name.fFullHandler = 0; *(MemoryManager**)&name.fMemoryManager = &mm;
  bool token = nondet_bool(); bool nc = nondet_bool(); bool got = false, threw = false;
  try { got = nc ? r->getNCName(name) : r->getName(name, token); } catch (const XMLException&) { threw = true; }
  VX_ASSERT(!threw, "name scanning at the end of an entity does not throw");
  VX_ASSERT(r->fCharIndex <= r->fCharsAvail && r->fCharsAvail <= XMLReader::kCharBufSize, "reader invariant fCharIndex <= fCharsAvail <= kCharBufSize after getName/getNCName");
  XMLSize_t taken = vx_app_total;
  VX_ASSERT(vx_app_bad == 0, "every piece appended to the name lies inside the valid part of the character buffer [0, fCharsAvail) and continues the previous piece");
  VX_ASSERT(name.fIndex == taken && got == (taken != 0), "returns true iff a non-empty name was scanned");
  VX_ASSERT(taken <= avail - idx, "never consumes more characters than the entity still had");
  VX_ASSERT(r->fCurCol == 1 + taken, "the column advances by the number of characters consumed");
  if (got && taken >= 2) VX_REACH("name of two or more characters"); if (!got) VX_REACH("no name");
  if (avail - idx >= 1 && before[avail - 1] >= 0xD800 && before[avail - 1] <= 0xDB7F && taken + 1 == avail - idx) VX_REACH("entity ends with a lone lead surrogate after a name");
}
