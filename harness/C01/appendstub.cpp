// Cut of the inline XMLBuffer::append(const XMLCh*, XMLSize_t) for C01/getname.cpp: a recorder.  It checks that the source range lies inside the
// valid part of the reader's character window at the time of the call and that successive pieces are contiguous in the ORIGINAL entity text
// (the window may have been shifted down by a refill in between: positions are tracked relative to the consumption cursor).
#include "vx.h"
#include "vx_open.h"
#include <xercesc/internal/XMLReader.hpp>
#include <xercesc/framework/XMLBuffer.hpp>
#include "vx_close.h"
using namespace xercesc;
extern XMLReader* vx_rd; extern XMLSize_t vx_app_total; extern int vx_app_bad;
extern "C" void vx_append(XMLBuffer* b, const XMLCh* chars, XMLSize_t count) asm("_ZN11xercesc_4_09XMLBuffer6appendEPKDsm");
extern "C" void vx_append(XMLBuffer* b, const XMLCh* chars, XMLSize_t count) {
  XMLSize_t at = (XMLSize_t)(chars - vx_rd->fCharBuf);
  if (count == 0 || at > vx_rd->fCharsAvail || count > vx_rd->fCharsAvail - at) vx_app_bad++;     // outside [0, fCharsAvail): stale or foreign data
  if (at + count != vx_rd->fCharIndex) vx_app_bad++;                                              // a piece always ends at the consumption cursor
  vx_app_total += count; b->fIndex += count;
}
