// C18-P3: ownership at the entity-reader stack (real ReaderMgr::pushReaderAdoptEntity / pushReader): "every object handed over is either
// kept by exactly one owner or destroyed exactly once - also on the early return for a recursive entity".
// The reader stack holds one entry and there is a current reader; entity names are symbolic, the entity pushed may or may not be adopted.
// XMLReader's destructor and the entity-declaration destructor are cut to counters (C18/ownstubs.cpp).  For EVERY combination:
//   recursive entity (its name is on the stack): returns false, the reader is destroyed exactly once, the entity exactly once iff it was
//   to be adopted, stack and current reader untouched;  otherwise: returns true, nothing destroyed, the previous current entry is pushed,
//   the new current entry owns exactly the reader and entity passed, with the adoption flag recorded.
#include "vx.h"
#include "vx_open.h"
#include <xercesc/internal/ReaderMgr.hpp>
#include <xercesc/internal/XMLReader.hpp>
#include <xercesc/validators/DTD/DTDEntityDecl.hpp>
#include <xercesc/util/RefStackOf.hpp>
#include "vx_close.h"
#define VX_STUB_XMLEXCEPTION
#define VX_STUB_XMEMORY
#include "vx_stubs.hpp"
int vx_reader_dtors; void* vx_reader_dtor_obj; int vx_entity_dtors; void* vx_entity_dtor_obj;
static XMLCh vx_names[2][2];
extern "C" void harness_pushreader(void) {
  VxMMFixed<160> mm;
  static VxRaw<ReaderMgr> mr; ReaderMgr* mgr = &mr.obj; mgr->fMemoryManager = &mm;
  XMLCh n1 = nondet_u16(), n2 = nondet_u16(); VX_ASSUME(n1 >= 'a' && n1 <= 'b' && n2 >= 'a' && n2 <= 'b');
  bool haveStack = nondet_bool(), stackEntityNull = nondet_bool(), haveCur = nondet_bool(), withEntity = nondet_bool(), adopt = nondet_bool();
  // readers are identities only (their destructor is cut to a counter; operator delete releases the block)
  XMLReader* r0 = (XMLReader*)malloc(16); XMLReader* rc = (XMLReader*)malloc(16); XMLReader* rn = (XMLReader*)malloc(16);
  VX_ASSUME(r0 != 0 && rc != 0 && rn != 0);
  // everything else is typed static storage set up field by field (a heap stack of heap entries gave no verdict)
  static VxRaw<DTDEntityDecl> er1, er2; DTDEntityDecl* e1 = new (&er1.obj) DTDEntityDecl(&mm); DTDEntityDecl* e2 = new (&er2.obj) DTDEntityDecl(&mm);
  vx_names[0][0] = n1; vx_names[0][1] = 0; vx_names[1][0] = n2; vx_names[1][1] = 0; e1->fName = vx_names[0]; e2->fName = vx_names[1];
  static VxRaw<ReaderMgr::ReaderData> dr0, drc; ReaderMgr::ReaderData* d0 = &dr0.obj; ReaderMgr::ReaderData* dc = haveCur ? &drc.obj : 0;
  d0->fReader = r0; d0->fEntity = stackEntityNull ? 0 : e1; d0->fEntityAdopted = false; drc.obj.fReader = rc; drc.obj.fEntity = 0; drc.obj.fEntityAdopted = false;
  static VxRaw<RefStackOf<ReaderMgr::ReaderData> > sr; static ReaderMgr::ReaderData* slots[16];
  mgr->fReaderStack = 0;
  if (haveStack) { RefStackOf<ReaderMgr::ReaderData>* st = &sr.obj; st->fVector.fAdoptedElems = true; st->fVector.fCurCount = 1; st->fVector.fMaxCount = 16; st->fVector.fElemList = slots; st->fVector.fMemoryManager = &mm; slots[0] = d0; mgr->fReaderStack = st; }
  mgr->fCurReaderData = dc; mgr->fCurReader = haveCur ? rc : 0;
  XMLSize_t size0 = haveStack ? mgr->fReaderStack->size() : 0;
  bool res = mgr->pushReaderAdoptEntity(rn, withEntity ? e2 : 0, adopt);
  bool recursive = withEntity && haveStack && !stackEntityNull && n1 == n2;
  if (recursive) {
    VX_ASSERT(!res, "a recursive entity is refused");
    VX_ASSERT(vx_reader_dtors == 1 && vx_reader_dtor_obj == (void*)rn, "the refused reader is destroyed exactly once (the caller has given it up)");
    VX_ASSERT(vx_entity_dtors == (adopt ? 1 : 0) && (!adopt || vx_entity_dtor_obj == (void*)(XMLEntityDecl*)e2), "the refused entity is destroyed exactly when it was to be adopted");
    VX_ASSERT(mgr->fReaderStack->size() == size0 && mgr->fCurReaderData == dc && mgr->fCurReader == (haveCur ? rc : 0), "a refused push leaves the reader stack untouched");
    VX_REACH("recursive entity refused");
  } else {
    VX_ASSERT(res, "a reader that is not a recursive expansion is accepted");
    VX_ASSERT(vx_reader_dtors == 0 && vx_entity_dtors == 0, "an accepted push destroys nothing");
    VX_ASSERT(mgr->fCurReader == rn && mgr->fCurReaderData != 0 && mgr->fCurReaderData != dc, "the new reader becomes the current one");
    if (mgr->fCurReaderData) VX_ASSERT(mgr->fCurReaderData->fReader == rn && mgr->fCurReaderData->fEntity == (withEntity ? (XMLEntityDecl*)e2 : 0) && mgr->fCurReaderData->fEntityAdopted == adopt,
                                       "the new entry owns exactly the reader and entity passed, with the adoption flag");
    VX_ASSERT(mgr->fReaderStack != 0 && mgr->fReaderStack->size() == size0 + (haveCur ? 1 : 0), "the previous current entry is pushed onto the stack (once)");
    if (haveCur && mgr->fReaderStack && mgr->fReaderStack->size() == size0 + 1) VX_ASSERT(mgr->fReaderStack->peek() == dc, "the entry pushed is the previous current one");
    if (haveStack && haveCur) VX_REACH("pushed on top of an existing stack");
    if (!haveStack) VX_REACH("stack created on first push");
  }
}
