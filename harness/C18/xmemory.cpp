// C18-P1/P3: MemoryManager discipline of XMemory-derived objects and of the Janitor scope guards (real XMemory.cpp, real Janitor.c).
// Two ledger managers record every block: deallocate must receive exactly a block that the SAME manager handed out and that is still
// live (no foreign pointer, no double release); at the end nothing is outstanding.  Object sizes, the manager used for each object and
// the order of destruction are symbolic.
#include "vx.h"
#include "vx_open.h"
#include <xercesc/util/XMemory.hpp>
#include <xercesc/util/PlatformUtils.hpp>
#include <xercesc/util/Janitor.hpp>
#include "vx_close.h"
#define VX_STUB_XMLEXCEPTION
#include "vx_stubs.hpp"
#define SLOTS 6
struct LedgerMM : MemoryManager {
  void* blk[SLOTS]; bool live[SLOTS]; XMLSize_t sz[SLOTS]; int n; int foreign, dbl, outstanding;
  LedgerMM() : n(0), foreign(0), dbl(0), outstanding(0) { for (int i = 0; i < SLOTS; i++) { blk[i] = 0; live[i] = false; sz[i] = 0; } }
  void* allocate(XMLSize_t s) {
    VX_ASSERT(n < SLOTS, "ledger capacity"); VX_ASSUME(n < SLOTS);
    void* p = malloc(s); VX_ASSUME(p != 0); blk[n] = p; live[n] = true; sz[n] = s; n++; outstanding++; return p;
  }
  void deallocate(void* p) {
    if (!p) return;
    int k = -1; for (int i = 0; i < SLOTS; i++) if (i < n && blk[i] == p) k = i;
    if (k < 0) { foreign++; return; }
    if (!live[k]) { dbl++; return; }
    live[k] = false; outstanding--; free(p);
  }
  MemoryManager* getExceptionMemoryManager() { return this; }
};
struct Small : XMemory { int v; Small(int x) : v(x) {} };
struct Big : XMemory { long a[5]; Big() { a[0] = 1; a[4] = 5; } };
static int g_calls;
struct Res { void close() { g_calls++; } };
extern "C" void harness_xmemory(void) {
  LedgerMM A, B, G;
  XMLPlatformUtils::fgMemoryManager = &G;
  XMemory* obj[3]; LedgerMM* owner[3];
  for (int i = 0; i < 3; i++) {
    unsigned w = nondet_u8() % 3; bool big = nondet_bool();
    LedgerMM* m = w == 0 ? &A : w == 1 ? &B : &G;
    if (w == 2) obj[i] = big ? (XMemory*)new Big() : (XMemory*)new Small(i);            // plain new: the global manager
    else obj[i] = big ? (XMemory*)new (m) Big() : (XMemory*)new (m) Small(i);
    owner[i] = m;
    VX_ASSERT(m->outstanding >= 1 && m->sz[m->n - 1] >= (big ? sizeof(Big) : sizeof(Small)) + sizeof(void*), "block comes from the requested manager and holds header + object");
    VX_ASSERT(((char*)obj[i] - (char*)m->blk[m->n - 1]) == (long)XMLPlatformUtils::alignPointerForNewBlockAllocation(sizeof(MemoryManager*)), "object starts right after the aligned header");
  }
  // destroy in a symbolic order; the third object through the two-argument form with a WRONG manager hint (the embedded one must win)
  unsigned first = nondet_u8() % 3;
  for (int k = 0; k < 3; k++) {
    int i = (first + k) % 3;
    if (k == 2 && nondet_bool()) { XMemory::operator delete(obj[i], owner[i] == &A ? (MemoryManager*)&B : (MemoryManager*)&A); VX_REACH("two-argument delete with another manager"); }
    else XMemory::operator delete(obj[i]);
    VX_ASSERT(A.foreign + B.foreign + G.foreign == 0, "no manager ever receives a block it did not hand out");
    VX_ASSERT(A.dbl + B.dbl + G.dbl == 0, "no block is released twice");
  }
  VX_ASSERT(A.outstanding == 0 && B.outstanding == 0 && G.outstanding == 0, "nothing outstanding after all objects are destroyed");
  if (owner[0] != owner[1]) VX_REACH("objects on different managers");
}
extern "C" void harness_janitor(void) {
  LedgerMM A, G; XMLPlatformUtils::fgMemoryManager = &G;
  // Janitor<T>: owns at most one object; release/orphan give it up; reset deletes the old one; destructor deletes the current one
  int expectLive = 0;
  Small* a = new (&A) Small(1); Small* b = new (&A) Small(2);
  {
    Janitor<Small> j(a);
    unsigned op = nondet_u8() % 4;
    if (op == 0) { Small* r = j.release(); VX_ASSERT(r == a, "release returns the owned pointer"); expectLive = 1; VX_REACH("janitor release"); }
    else if (op == 1) { j.orphan(); expectLive = 1; }
    else if (op == 2) { j.reset(b); b = 0; VX_ASSERT(A.outstanding == 1, "reset deletes the previously owned object at once"); VX_REACH("janitor reset"); }
    // op 3: nothing - the destructor deletes a
  }
  if (b) { delete b; }
  VX_ASSERT(A.outstanding == expectLive, "Janitor deletes exactly the object it still owns at scope exit");
  if (expectLive) delete a;
  VX_ASSERT(A.outstanding == 0 && A.foreign == 0 && A.dbl == 0, "no leak, no foreign or double release (Janitor)");
  // ArrayJanitor<XMLCh> with an explicit manager
  XMLCh* buf = (XMLCh*)A.allocate(8 * sizeof(XMLCh)); XMLCh* buf2 = (XMLCh*)A.allocate(4 * sizeof(XMLCh));
  bool kept = false;
  {
    ArrayJanitor<XMLCh> aj(buf, &A);
    unsigned op = nondet_u8() % 3;
    if (op == 0) { XMLCh* r = aj.release(); VX_ASSERT(r == buf, "ArrayJanitor::release returns the buffer"); kept = true; }
    else if (op == 1) { aj.reset(buf2, &A); buf2 = 0; VX_ASSERT(A.outstanding == 1, "ArrayJanitor::reset releases the old buffer to its manager"); VX_REACH("array janitor reset"); }
  }
  if (buf2) A.deallocate(buf2);
  VX_ASSERT(A.outstanding == (kept ? 1 : 0), "ArrayJanitor returns its buffer to the manager it was given, exactly once");
  if (kept) A.deallocate(buf);
  VX_ASSERT(A.outstanding == 0 && A.foreign == 0 && A.dbl == 0 && G.n == 0, "no leak, nothing routed to the global manager (ArrayJanitor)");
  // ArrayJanitor handed a buffer of ANOTHER manager by reset(p, manager): the old buffer goes back to the old manager, the new one to the new
  {
    LedgerMM B;
    XMLCh* b1 = (XMLCh*)A.allocate(8 * sizeof(XMLCh)); XMLCh* b2 = (XMLCh*)B.allocate(4 * sizeof(XMLCh));
    {
      ArrayJanitor<XMLCh> aj(b1, &A);
      aj.reset(b2, &B);
      VX_ASSERT(A.outstanding == 0 && A.foreign == 0 && B.foreign == 0 && B.outstanding == 1, "reset(p, manager) returns the old buffer to the manager it came from, not to the new one");
      VX_REACH("array janitor reset to another manager");
    }
    VX_ASSERT(B.outstanding == 0 && B.foreign == 0 && B.dbl == 0 && A.outstanding == 0 && A.foreign == 0 && A.dbl == 0 && G.n == 0, "after reset the new buffer is returned to the new manager");
  }
  // JanitorMemFunCall: the member function runs exactly once at scope exit unless released
  Res res; g_calls = 0; bool rel = nondet_bool();
  { JanitorMemFunCall<Res> c(&res, &Res::close); if (rel) c.release(); }
  VX_ASSERT(g_calls == (rel ? 0 : 1), "JanitorMemFunCall calls the clean-up exactly once unless released");
}
