// Cuts for C18/pushreader.cpp: destructors -> counters (what is destroyed, how often).
#include "vx.h"
extern int vx_reader_dtors; extern void* vx_reader_dtor_obj; extern int vx_entity_dtors; extern void* vx_entity_dtor_obj;
extern "C" {
void vx_rdtor(void* r) asm("_ZN11xercesc_4_09XMLReaderD1Ev"); void vx_rdtor(void* r) { vx_reader_dtors++; vx_reader_dtor_obj = r; }
void vx_edtor(void* e) asm("_ZN11xercesc_4_013XMLEntityDeclD2Ev"); void vx_edtor(void* e) { vx_entity_dtors++; vx_entity_dtor_obj = e; }
void vx_edtor1(void* e) asm("_ZN11xercesc_4_013XMLEntityDeclD1Ev"); void vx_edtor1(void* e) { vx_entity_dtors++; vx_entity_dtor_obj = e; }
}
