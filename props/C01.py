# C01 - memory safety / termination on arbitrary input: the buffer layer and the untrusted-input kernels
CLAIMS = {'strkernels': 'XMLString::patternMatch / trim / subString / indexOf(ch,from) / lastIndexOf(ch,from) / regionMatches on every text of <= N and pattern of <= 3 units, every index argument: result = specification, out-of-range refused, memory safe', 'xmlbuffer': 'XMLBuffer append/set/ensureCapacity (with and without full handler / maximum size) from every valid state with capacity <= 5: index <= capacity <= block, content = kept + appended, refused requests throw and append nothing', 'getname': 'XMLReader::getName/getNCName from every valid buffer state at the end of an entity: invariant preserved, exact consumption',
          'reader_chunks': 'refill layer + real UTF-8 decoder under every chunking: invariant and CBMC memory checks (shared with C04)',
          'utf8_decode / hexbin / dotdot / chardata': 'untrusted-input kernels: CBMC bounds/pointer checks for every input within the bound (shared with C05/C09/C20/C13)'}
ASSUMPTIONS = ['hook: small reader window', 'stream at end of input for getname', 'XML 1.0 table, NEL off']
T10 = '_ZN11xercesc_4_010XMLChar1_019fgCharCharsTable1_0E'
T11 = '_ZN11xercesc_4_010XMLChar1_119fgCharCharsTable1_1E'
D = {'XERCES_VERIF_CHARBUF': 3, 'XERCES_VERIF_RAWBUF': 4}
HARNESSES = [
 dict(name='getname', entry='harness_getname', srcs=['C01/getname.cpp', 'C01/appendstub.cpp'], cuts_everywhere=['_ZN11xercesc_4_09XMLBuffer6appendEPKDsm'],
      tus=['internal/XMLReader.cpp', 'framework/XMLBuffer.cpp', 'util/XMLUTF8Transcoder.cpp', 'util/XMLChar.cpp', 'util/BinInputStream.cpp', 'util/XMLString.cpp'],
      const_tables=[T10, T11], cuts=['_ZN11xercesc_4_09XMLString9binToTextE*', '_ZN11xercesc_4_09XMLString10sizeToTextE*'],
      defs={'all': dict(D)}, unwind=3, unwind_gentle=True, unwind_cap=10, timeout={'quick': 700, 'thorough': 1700}),
 dict(name='xmlbuffer', entry='harness_xmlbuffer', srcs=['C01/xmlbuffer.cpp'], tus=['framework/XMLBuffer.cpp', 'util/XMLString.cpp'],
      cuts=['_ZN11xercesc_4_09XMLString9binToTextE*', '_ZN11xercesc_4_09XMLString10sizeToTextE*'], unwind=10, unwind_cap=40, timeout={'quick': 700, 'thorough': 1700}),
 dict(name='strkernels', entry='harness_strkernels', srcs=['C01/strkernels.cpp'], tus=['util/XMLString.cpp', 'util/XMLChar.cpp'], const_tables=[T10, T11],
      cuts=['_ZN11xercesc_4_09XMLString9binToTextE*', '_ZN11xercesc_4_09XMLString10sizeToTextE*'],
      defs={'quick': {'N': 5}, 'thorough': {'N': 7}}, unwind='N+4', unwind_gentle=True, unwind_cap=40, timeout={'quick': 900, 'thorough': 2400}, mem_gb=16),
]
LEVEL_TEXT = ('Bounded model checking, with CBMC bounds/pointer/overflow checks on every access of the real code, of the layers every input byte flows through and of the untrusted-input kernels: token scanning over the '
              'character window from ALL valid buffer states, the refill layer under all chunkings, decoders and lexical kernels on all inputs within the bound.')
LEVEL_NOTE = ('NOT claimed: the scanners\' token dispatch, error resynchronisation, reader-stack ownership, content-spec teardown, DFA construction, TraverseSchema, RegxParser; termination beyond the loop bounds of the '
              'encoded kernels. Window 3/4 instead of 16K/48K (hook).')

