# C16 - grammar-pool serialisation: the engine's block-buffered stream
CLAIMS = {'storedv': 'DatatypeValidator::storeDV as a path gate: by-name encoding exactly when the registry holds this very validator object, by-value otherwise, null marker for none',
 'engine_raw': 'XSerializeEngine::write(bytes,len)/read(bytes,len) for every run position/length relative to the 16-byte block (PRE < 16 leading bytes, LEN <= RAWMAX): run and the following items read back', 'engine': 'XSerializeEngine operator<< / operator>> for XMLByte, XMLCh, int, unsigned int, unsigned long, bool + alignment + block flush/fill: load(store(script)) == script for every script of K items over a 16-byte block'}
ASSUMPTIONS = ['engine objects built field by field (object pools not used by primitive items)', 'streams: collector / replayer of whole blocks', 'float/double items excluded (bit copies; floating point declined)']
HARNESSES = [
 dict(name='engine', entry='harness_engine', srcs=['C16/engine.cpp'], tus=['internal/XSerializeEngine.cpp', 'util/XMLString.cpp', 'framework/BinOutputStream.cpp', 'util/BinInputStream.cpp'],
      cuts=['_ZN11xercesc_4_09XMLString9binToTextE*', '_ZN11xercesc_4_09XMLString10sizeToTextE*'],
      defs={'quick': {'K': 2}, 'thorough': {'K': 3}}, unwind=20, timeout={'quick': 900, 'thorough': 2400}),
 dict(name='engine_raw', entry='harness_engine_raw', srcs=['C16/engine.cpp'], tus=['internal/XSerializeEngine.cpp', 'util/XMLString.cpp', 'framework/BinOutputStream.cpp', 'util/BinInputStream.cpp'],
      cuts=['_ZN11xercesc_4_09XMLString9binToTextE*', '_ZN11xercesc_4_09XMLString10sizeToTextE*'],
      defs={'quick': {'RAWMAX': 20}, 'thorough': {'RAWMAX': 36}}, unwind=20, unwind_cap=48, timeout={'quick': 900, 'thorough': 3000}, mem_gb=16),
 dict(name='storedv', entry='harness_storedv', srcs=['C16/storedv.cpp', 'C16/dvstubs.cpp'], tus=['validators/datatype/DatatypeValidator.cpp'],
      cuts_everywhere=['_ZN11xercesc_4_014RefHashTableOfINS_17DatatypeValidatorENS_12StringHasherEE3getEPKv'], unwind=4, timeout=600),
]
LEVEL_TEXT = ('Bounded model checking of the real serialisation engine stream: for ALL scripts of primitive items (types and values symbolic) the load side reads back exactly what the store side wrote, across block '
              'boundaries and alignment padding, with both cursors inside their buffers.')
LEVEL_NOTE = ('NOT claimed: per-class serialize() symmetry, object-graph identity (pointer pools), XTemplateSerializer containers, behavioural identity of a restored grammar pool, the level stamp check (whole-system / heap graphs). '
              'Bounds: block 16 bytes; PRE < 16 leading bytes (arbitrary start cursor) then K = 2 items (quick) / 3; raw runs of <= 20 bytes (quick) / 36.')
