# C16 - grammar-pool serialisation: the engine's block-buffered stream
CLAIMS = {'engine': 'XSerializeEngine operator<< / operator>> for XMLByte, XMLCh, int, unsigned int, unsigned long, bool + alignment + block flush/fill: load(store(script)) == script for every script of K items over a 16-byte block'}
ASSUMPTIONS = ['engine objects built field by field (object pools not used by primitive items)', 'streams: collector / replayer of whole blocks', 'float/double items excluded (bit copies; floating point declined)']
HARNESSES = [
 dict(name='engine', entry='harness_engine', srcs=['C16/engine.cpp'], tus=['internal/XSerializeEngine.cpp', 'util/XMLString.cpp', 'framework/BinOutputStream.cpp', 'util/BinInputStream.cpp'],
      cuts=['_ZN11xercesc_4_09XMLString9binToTextE*', '_ZN11xercesc_4_09XMLString10sizeToTextE*'],
      defs={'quick': {'K': 3}, 'thorough': {'K': 6}}, unwind=20, timeout={'quick': 600, 'thorough': 1700}),
]
LEVEL_TEXT = ('Bounded model checking of the real serialisation engine stream: for ALL scripts of primitive items (types and values symbolic) the load side reads back exactly what the store side wrote, across block '
              'boundaries and alignment padding, with both cursors inside their buffers.')
LEVEL_NOTE = ('NOT claimed: per-class serialize() symmetry, object-graph identity (pointer pools), XTemplateSerializer containers, behavioural identity of a restored grammar pool, the level stamp check (whole-system / heap graphs). '
              'Bounds: block 16 bytes, K = 3 items (quick) / 6.')
