# C15 - history independence / transparent grammar caching: the pool lock gate and component resets
CLAIMS = {'domreset': 'AbstractDOMParser::reset from an arbitrary prior state: every per-parse field back to its constructed value, an unadopted previous document kept for deletion exactly once', 'resolver': 'GrammarResolver::getGrammar(description|namespace)/putGrammar as a path gate: use-cached-grammar off => pool and from-pool table never consulted (transparent); on => own bucket, from-pool table, pool in that order, only pool answers remembered; putGrammar offers to the pool only when caching is on', 'pool': 'XMLGrammarPoolImpl::cacheGrammar/orphanGrammar/clear/retrieveGrammar/getURIStringPool for every combination of lock flag, model flag, registry answer and argument: locked => registry never mutated + refused value; unlocked => documented effect exactly once'}
ASSUMPTIONS = ['grammar registry (RefHashTableOf<Grammar>) cut to a recorder with arbitrary answers', 'Grammar / XMLGrammarDescription stub subclasses', 'pool object built field by field']
R = '_ZN11xercesc_4_014RefHashTableOfINS_7GrammarENS_12StringHasherEE'
RK = '_ZNK11xercesc_4_014RefHashTableOfINS_7GrammarENS_12StringHasherEE'
HARNESSES = [
 dict(name='pool', entry='harness_pool', srcs=['C15/pool.cpp', 'C15/registry.cpp'], tus=['framework/XMLGrammarPoolImpl.cpp'],
      cuts_everywhere=[RK + '11containsKeyEPKv', R + '3putEPvPS1_', R + '3getEPKv', R + '9orphanKeyEPKv', R + '9removeAllEv'], unwind=4, timeout=300),
 dict(name='resolver', entry='harness_resolver', srcs=['C15/resolver.cpp', 'C15/restables.cpp'], tus=['validators/common/GrammarResolver.cpp'],
      cuts_everywhere=[R + '3putEPvPS1_', R + '3getEPKv'], unwind=4, timeout=600),
 dict(name='domreset', entry='harness_domreset', srcs=['C15/domreset.cpp', 'C15/domstubs15.cpp'], tus=['parsers/AbstractDOMParser.cpp', 'parsers/XercesDOMParser.cpp', 'framework/XMLBuffer.cpp', 'util/XMLString.cpp'],
      cuts_everywhere=['_ZN11xercesc_4_015BaseRefVectorOfINS_15DOMDocumentImplEE10addElementEPS1_'], unwind=10, timeout=900, mem_gb=16),
]
LEVEL_TEXT = ('Path-gate symbolic execution of the real grammar-pool entry points with the registry cut to a recorder: on EVERY path and for every stub outcome a locked pool is not modified and answers with the documented '
              'refusal, an unlocked pool performs the documented effect exactly once. (Together with C17/syncpool: the URI pool handed out while locked.)')
LEVEL_NOTE = ('NOT claimed: equality of parse outcomes across parser histories (scanner reset completeness - the reset of the DOM parser itself IS covered -, progressive-scan tokens, document pool) - whole-system behaviour outside bounded symbolic '
              'execution of this code base within the budget; lockPool/unlockPool side effects on the XSModel.')
