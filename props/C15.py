# C15 - history independence / transparent grammar caching: the pool lock gate and component resets
CLAIMS = {'pool': 'XMLGrammarPoolImpl::cacheGrammar/orphanGrammar/clear/retrieveGrammar/getURIStringPool for every combination of lock flag, model flag, registry answer and argument: locked => registry never mutated + refused value; unlocked => documented effect exactly once'}
ASSUMPTIONS = ['grammar registry (RefHashTableOf<Grammar>) cut to a recorder with arbitrary answers', 'Grammar / XMLGrammarDescription stub subclasses', 'pool object built field by field']
R = '_ZN11xercesc_4_014RefHashTableOfINS_7GrammarENS_12StringHasherEE'
RK = '_ZNK11xercesc_4_014RefHashTableOfINS_7GrammarENS_12StringHasherEE'
HARNESSES = [
 dict(name='pool', entry='harness_pool', srcs=['C15/pool.cpp', 'C15/registry.cpp'], tus=['framework/XMLGrammarPoolImpl.cpp'],
      cuts_everywhere=[RK + '11containsKeyEPKv', R + '3putEPvPS1_', R + '3getEPKv', R + '9orphanKeyEPKv', R + '9removeAllEv'], unwind=4, timeout=300),
]
LEVEL_TEXT = ('Path-gate symbolic execution of the real grammar-pool entry points with the registry cut to a recorder: on EVERY path and for every stub outcome a locked pool is not modified and answers with the documented '
              'refusal, an unlocked pool performs the documented effect exactly once. (Together with C17/syncpool: the URI pool handed out while locked.)')
LEVEL_NOTE = ('NOT claimed: equality of parse outcomes across parser histories (scanner reset completeness, progressive-scan tokens, GrammarResolver lookup order, document pool) - whole-system behaviour outside bounded symbolic '
              'execution of this code base within the budget; lockPool/unlockPool side effects on the XSModel.')
