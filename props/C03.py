# C03 - reported content = infoset: the normalisation kernels (end-of-line handling, positions)
CLAIMS = {'attscan_dg': 'as attscan for DGXMLScanner::scanAttValue (the DTD-only scanner has its own copy)', 'attscan': 'IGXMLScanner::scanAttValue on every scripted input of N units x attribute type: accepted silently iff a properly quoted literal of legal characters (complete surrogate pairs, no literal <), end of input reported, value = XML 1.0 3.3.3 normalisation', 'attnorm_sg': 'as attnorm for SGXMLScanner::normalizeAttValue (the schema scanner has its own copy)', 'attnorm': 'IGXMLScanner::normalizeAttValue on every intermediate attribute value of <= N units (literal vs. referenced characters) x attribute type: result = XML 1.0 3.3.3 normalisation, literal < reported, memory safe', 'reader_eol': 'XMLReader::getNextChar + handleEOL on every character sequence of <= NC units, external/internal entity, NEL on/off, XML 1.0/1.1: delivered characters and line/column equal XML 2.11 end-of-line normalisation'}
ASSUMPTIONS = ['hook: small reader window', 'the entity is at its end (no refill needed): refills are covered by C04/reader_chunks']
TUS = ['internal/XMLReader.cpp', 'util/BinInputStream.cpp']
HARNESSES = [
 dict(name='reader_eol', entry='harness_reader_eol', srcs=['C04/reader.cpp'], tus=TUS,
      defs={'quick': {'NC': 4, 'N': 2, 'XERCES_VERIF_CHARBUF': 6, 'XERCES_VERIF_RAWBUF': 8}, 'thorough': {'NC': 6, 'N': 2, 'XERCES_VERIF_CHARBUF': 8, 'XERCES_VERIF_RAWBUF': 8}},
      unwind={'quick': 7, 'thorough': 9}, timeout={'quick': 600, 'thorough': 1700}),
 dict(name='attnorm', entry='harness_attnorm', srcs=['C03/attnorm.cpp', 'C03/scanstubs.cpp'], tus=['internal/IGXMLScanner2.cpp', 'framework/XMLAttDef.cpp', 'framework/XMLBuffer.cpp', 'util/XMLChar.cpp', 'util/XMLString.cpp'],
      const_tables=['_ZN11xercesc_4_010XMLChar1_019fgCharCharsTable1_0E', '_ZN11xercesc_4_010XMLChar1_119fgCharCharsTable1_1E'],
      cuts=['_ZN11xercesc_4_010XMLScanner9emitErrorENS_7XMLErrs5CodesEPKDsS4_S4_S4_', '_ZN11xercesc_4_012XMLValidator9emitErrorENS_8XMLValid5CodesEPKDsS4_S4_S4_'] if False else [],
      defs={'quick': {'N': 4}, 'thorough': {'N': 5}}, unwind='2*N+3', unwind_gentle=True, unwind_cap=40, timeout={'quick': 900, 'thorough': 2400}, mem_gb=16),
 dict(name='attnorm_sg', entry='harness_attnorm', srcs=['C03/attnorm.cpp', 'C03/scanstubs.cpp'], tus=['internal/SGXMLScanner.cpp', 'framework/XMLAttDef.cpp', 'framework/XMLBuffer.cpp', 'util/XMLChar.cpp', 'util/XMLString.cpp'],
      const_tables=['_ZN11xercesc_4_010XMLChar1_019fgCharCharsTable1_0E', '_ZN11xercesc_4_010XMLChar1_119fgCharCharsTable1_1E'],
      defs={'quick': {'N': 3, 'SCANNER': 'SGXMLScanner'}, 'thorough': {'N': 5, 'SCANNER': 'SGXMLScanner'}}, unwind='2*N+3', unwind_gentle=True, unwind_cap=40, timeout={'quick': 900, 'thorough': 2400}, mem_gb=16),
 dict(name='attscan', entry='harness_attscan', srcs=['C03/attscan.cpp', 'C03/attscanstubs.cpp', 'C02/crstubs.cpp', 'C06/nsstubs.cpp'],
      tus=['internal/IGXMLScanner2.cpp', 'framework/XMLAttDef.cpp', 'framework/XMLBuffer.cpp', 'util/XMLChar.cpp', 'util/XMLString.cpp'],
      const_tables=['_ZN11xercesc_4_010XMLChar1_019fgCharCharsTable1_0E', '_ZN11xercesc_4_010XMLChar1_119fgCharCharsTable1_1E'],
      cuts=['_ZN11xercesc_4_09XMLString9binToTextE*', '_ZN11xercesc_4_09XMLString10sizeToTextE*'],
      cuts_everywhere=['_ZNK11xercesc_4_09ReaderMgr19getCurrentReaderNumEv'],
      defs={'quick': {'N': 5}, 'thorough': {'N': 6}}, unwind='N+3', unwind_gentle=True, unwind_cap=40, timeout={'quick': 1200, 'thorough': 2400}, mem_gb=20),
 dict(name='attscan_dg', entry='harness_attscan', srcs=['C03/attscan.cpp', 'C03/attscanstubs.cpp', 'C02/crstubs.cpp', 'C06/nsstubs.cpp'],
      tus=['internal/DGXMLScanner.cpp', 'framework/XMLAttDef.cpp', 'framework/XMLBuffer.cpp', 'util/XMLChar.cpp', 'util/XMLString.cpp'],
      const_tables=['_ZN11xercesc_4_010XMLChar1_019fgCharCharsTable1_0E', '_ZN11xercesc_4_010XMLChar1_119fgCharCharsTable1_1E'],
      cuts=['_ZN11xercesc_4_09XMLString9binToTextE*', '_ZN11xercesc_4_09XMLString10sizeToTextE*'],
      cuts_everywhere=['_ZNK11xercesc_4_09ReaderMgr19getCurrentReaderNumEv'],
      defs={'quick': {'N': 5, 'SCANNER': 'DGXMLScanner'}, 'thorough': {'N': 6, 'SCANNER': 'DGXMLScanner'}}, unwind='N+3', unwind_gentle=True, unwind_cap=40, timeout={'quick': 1200, 'thorough': 2400}, mem_gb=20),
]
LEVEL_TEXT = ('Bounded model checking of the real end-of-line normalisation and position tracking of the reader against a reference transcribed from XML 1.0/1.1 section 2.11, for ALL character sequences within the bound '
              '(CRLF, CR NEL, NEL, LSEP, lone CR; external vs. internal entities; NEL recognition on/off).')
LEVEL_NOTE = ('Only the normalisation kernels are within reach (end-of-line handling of the reader; attribute-value normalisation of the IG and SG scanners). NOT claimed: attribute-value normalisation of the DG and WF scanners, entity expansion, DTD defaulting, CDATA/comment/PI delivery, '
              'agreement of the SAX/SAX2/DOM/pull adapters (whole-document behaviour).')
