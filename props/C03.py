# C03 - reported content = infoset: the normalisation kernels (end-of-line handling, positions)
CLAIMS = {'reader_eol': 'XMLReader::getNextChar + handleEOL on every character sequence of <= NC units, external/internal entity, NEL on/off, XML 1.0/1.1: delivered characters and line/column equal XML 2.11 end-of-line normalisation'}
ASSUMPTIONS = ['hook: small reader window', 'the entity is at its end (no refill needed): refills are covered by C04/reader_chunks']
TUS = ['internal/XMLReader.cpp', 'util/BinInputStream.cpp']
HARNESSES = [
 dict(name='reader_eol', entry='harness_reader_eol', srcs=['C04/reader.cpp'], tus=TUS,
      defs={'quick': {'NC': 4, 'N': 2, 'XERCES_VERIF_CHARBUF': 6, 'XERCES_VERIF_RAWBUF': 8}, 'thorough': {'NC': 6, 'N': 2, 'XERCES_VERIF_CHARBUF': 8, 'XERCES_VERIF_RAWBUF': 8}},
      unwind={'quick': 7, 'thorough': 9}, timeout={'quick': 600, 'thorough': 1700}),
]
LEVEL_TEXT = ('Bounded model checking of the real end-of-line normalisation and position tracking of the reader against a reference transcribed from XML 1.0/1.1 section 2.11, for ALL character sequences within the bound '
              '(CRLF, CR NEL, NEL, LSEP, lone CR; external vs. internal entities; NEL recognition on/off).')
LEVEL_NOTE = ('Only the normalisation kernels are within reach. NOT claimed: attribute-value normalisation (member functions of the 5000-line scanner classes), entity expansion, DTD defaulting, CDATA/comment/PI delivery, '
              'agreement of the SAX/SAX2/DOM/pull adapters (whole-document behaviour).')
