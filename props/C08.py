# C08 - XML Schema structures: the content-model automaton interpreter
CLAIMS = {'dfa_count': 'DFAContentModel::validateContent + handleRepetitions on the counting automaton of (a{min,max}, b?) with symbolic 1<=min<=max<=4 or unbounded: accepted iff a^k b? with min<=k<=max', 'dfa': 'DFAContentModel::validateContent on a SYMBOLIC automaton (<=3 states x 2 entries, Leaf/##any-namespace/##other entries, mixed, DTD or schema naming): accepted iff the reference run ends in a final state, exact failing index'}
ASSUMPTIONS = ['the automaton is deterministic on the children considered (UPA), as TraverseSchema/buildDFA guarantee for valid schemas', 'harness dfa: no counting states; harness dfa_count: the automaton shape buildDFA produces for (a{min,max}, b?) is written down by hand',
               'QName objects built field by field; QName::getRawName lazy construction cut']
HARNESSES = [
 dict(name='dfa', entry='harness_dfa', srcs=['C08/dfa.cpp'], tus=['validators/common/DFAContentModel.cpp', 'framework/XMLContentModel.cpp', 'framework/XMLElementDecl.cpp', 'util/XMLString.cpp'],
      defs={'quick': {'N': 3}, 'thorough': {'N': 4}}, unwind='N+3', timeout={'quick': 900, 'thorough': 1700}),
 dict(name='dfa_count', entry='harness_dfa_count', srcs=['C08/dfa.cpp'], tus=['validators/common/DFAContentModel.cpp', 'framework/XMLContentModel.cpp', 'framework/XMLElementDecl.cpp', 'util/XMLString.cpp'],
      defs={'quick': {'NC': 5}, 'thorough': {'NC': 6}}, unwind='NC+3', timeout={'quick': 900, 'thorough': 1700}),
]
LEVEL_TEXT = ('Bounded model checking of the real DFA interpreter with the automaton itself symbolic: ALL transition tables, final-state sets, element-map typings (incl. namespace-constrained wildcards) and child sequences '
              'within the bound - i.e. every content model whose DFA has <= 3 states over 2 particles, not the handful a test builds.')
LEVEL_NOTE = ('NOT claimed: construction of the automaton (buildDFA, particle expansion), counting states beyond the (a{min,max}, b?) family, all-groups, substitution groups, xsi:type/nil, attribute uses, TraverseSchema component constraints, UPA checking '
              '(heap/graph code outside bounded symbolic execution here). Bounds: 3 states, 2 entries, <= 3 children (quick) / 4.')
