# C02 - fatal error iff not well-formed (lexical layer)
CLAIMS = {'charref': 'XMLScanner::scanCharRef on every scripted input of N units, XML 1.0/1.1: accepted silently iff well-formed CharRef denoting a legal character (value as a mathematical integer, any number of digits), exact character / surrogate pair returned',
 'names_1_0 / names_1_1': 'XMLChar1_0/1_1::isValidNCName/isValidName/isValidQName on every (pointer,count) buffer of 1..3 units in an exactly sized object: verdict = Name/NCName/QName productions, nothing read beyond count',
 
 'chartables_1_0 / chartables_1_1': 'for every 16-bit code unit and every unit pair, XMLChar1_0/XMLChar1_1 accessors (real tables lowered from source, as exact decision trees) '
     'equal the productions [2] Char, [2a] RestrictedChar, [3] S, [4] NameStartChar, [4a] NameChar and their NCName variants',
 'severity': 'for every code value the warning/error/fatal partition is exact and the named well-formedness codes are fatal',
}
ASSUMPTIONS = ['character tables are treated as constants (XMLPlatformUtils::recognizeNEL not enabled)']
T10 = '_ZN11xercesc_4_010XMLChar1_019fgCharCharsTable1_0E'
T11 = '_ZN11xercesc_4_010XMLChar1_119fgCharCharsTable1_1E'
HARNESSES = [
 dict(name='chartables_1_0', entry='harness_chartables', srcs=['C02/chartables.cpp'], tus=['util/XMLChar.cpp'], defs={'all': {'VERSION': 10}},
      const_tables=[T10, T11], unwind=2),
 dict(name='chartables_1_1', entry='harness_chartables', srcs=['C02/chartables.cpp'], tus=['util/XMLChar.cpp'], defs={'all': {'VERSION': 11}},
      const_tables=[T10, T11], unwind=2),
 dict(name='names_1_0', entry='harness_names', srcs=['C02/names.cpp'], tus=['util/XMLChar.cpp', 'util/XMLString.cpp'], defs={'all': {'VERSION': 10}}, const_tables=[T10, T11], unwind=6),
 dict(name='names_1_1', entry='harness_names', srcs=['C02/names.cpp'], tus=['util/XMLChar.cpp', 'util/XMLString.cpp'], defs={'all': dict({'VERSION': 11}, **({'ONLYFN': int(__import__('os').environ['VX_ONLYFN'])} if __import__('os').environ.get('VX_ONLYFN') else {}))}, const_tables=[T10, T11], unwind=6),
 dict(name='charref', entry='harness_charref', srcs=['C02/charref.cpp', 'C02/crstubs.cpp', 'C06/nsstubs.cpp'], tus=['internal/XMLScanner.cpp', 'util/XMLChar.cpp', 'util/XMLString.cpp'],
      const_tables=[T10, T11], cuts=['_ZN11xercesc_4_010XMLScanner9emitErrorENS_7XMLErrs5CodesE', '_ZN11xercesc_4_010XMLScanner9emitErrorENS_7XMLErrs5CodesEPKDsS4_S4_S4_'], defs={'quick': {'N': 11}, 'thorough': {'N': 12}}, unwind='N+3', timeout={'quick': 900, 'thorough': 2400}, mem_gb=16),
 dict(name='severity', entry='harness_severity', srcs=['C02/severity.cpp'], tus=[], unwind=2),
]
LEVEL_TEXT = ('Bounded model checking of the lexical layer every well-formedness verdict rests on: the XML 1.0/1.1 character-class tables (lowered from the real source, '
              'each look-up exact) agree with the productions for ALL 65536 code units and all unit pairs; the error-severity partition is exact for ALL code values; '
              'see evidence for the harness list (char references, name scanning are added as harnesses are built).')
LEVEL_NOTE = ('Covers the lexical layer only: no claim about whole-document verdicts, tag matching, attribute uniqueness, entity or DTD syntax (scanner token dispatch is outside bounded '
              'symbolic execution here). Tables assumed constant (NEL recognition off). Trusted: clang-14, ir2c, CBMC, the range predicates transcribed from the XML recommendations.')
