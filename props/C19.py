# C19 - no external resource unless permitted: the createReader choke point
CLAIMS = {'entityref_dg': 'as entityref for DGXMLScanner::scanEntityRef (the DTD-only scanner has its own copy)', 'entityref': 'IGXMLScanner::scanEntityRef as a path gate over every outcome of its callees, arbitrary expansion counter and limit: external reader only for declared parsed external entities with the disable flag passed through; every expansion counted under a security manager and EntityExpansionLimitExceeded exactly when the count passes the limit; unparsed/recursive/undeclared/standalone errors',
 'createreader_sysid / createreader_base': 'ReaderMgr::createReader(sysId...) and createReader(baseURI, sysId...): resolver first; supplied source replaces the default; '
          'disableDefaultEntityResolution => no file/URL source constructed; conformant mode never falls back to a file; exactly one default source otherwise'}
ASSUMPTIONS = ['environment cut: XMLURL, XMLUri::normalizeURI, LocalFileInputSource / URLInputSource constructors, inner createReader(InputSource&), getLastExtEntityInfo, XMLString::removeChar',
               'reader manager object built field by field; XMLReader instantiated with small buffers through the XERCES_VERIF_HOOKS size hook (only its reader number is touched)']
CUT = ['_ZNK11xercesc_4_09ReaderMgr20getLastExtEntityInfoERNS0_17LastExtEntityInfoE', '_ZN11xercesc_4_09XMLString10removeCharEPKDsRS1_RNS_9XMLBufferE',
       '_ZN11xercesc_4_09ReaderMgr12createReaderERKNS_11InputSourceEbNS_9XMLReader7RefFromENS4_5TypesENS4_7SourcesEbm']
TUS = ['internal/ReaderMgr.cpp', 'framework/XMLBuffer.cpp', 'util/XMemory.cpp', 'sax/InputSource.cpp', 'util/XMLString.cpp']
D = {'XERCES_VERIF_CHARBUF': 8, 'XERCES_VERIF_RAWBUF': 16}
HARNESSES = [
 dict(name='createreader_sysid', entry='harness_createreader', srcs=['C19/createreader.cpp', 'C19/envstubs.cpp'], tus=TUS, cuts=CUT, defs={'all': dict(D)}, unwind=6, timeout=600),
 dict(name='createreader_base', entry='harness_createreader', srcs=['C19/createreader.cpp', 'C19/envstubs.cpp'], tus=TUS, cuts=CUT, defs={'all': dict(D, WITH_BASE=1)}, unwind=6, timeout=600),
 dict(name='entityref', entry='harness_entityref', srcs=['C19/entityref.cpp', 'C19/entstubs.cpp', 'C06/nsstubs.cpp'],
      tus=['internal/IGXMLScanner2.cpp', 'validators/DTD/DTDEntityDecl.cpp', 'framework/XMLEntityDecl.cpp', 'framework/XMLBuffer.cpp', 'util/XMLString.cpp'],
      cuts=['_ZN11xercesc_4_09XMLString10sizeToTextE*'],
      cuts_everywhere=['_ZNK11xercesc_4_09ReaderMgr19getCurrentReaderNumEv', '_ZN11xercesc_4_09ReaderMgr7getNameERNS_9XMLBufferE', '_ZN11xercesc_4_09ReaderMgr8getQNameERNS_9XMLBufferEPi', '_ZN11xercesc_4_010DTDGrammar13getEntityDeclEPKDs'],
      unwind=6, timeout={'quick': 900, 'thorough': 1700}, mem_gb=16),
 dict(name='entityref_dg', entry='harness_entityref', srcs=['C19/entityref.cpp', 'C19/entstubs.cpp', 'C06/nsstubs.cpp'],
      tus=['internal/DGXMLScanner.cpp', 'validators/DTD/DTDEntityDecl.cpp', 'framework/XMLEntityDecl.cpp', 'framework/XMLBuffer.cpp', 'util/XMLString.cpp'],
      cuts=['_ZN11xercesc_4_09XMLString10sizeToTextE*'],
      cuts_everywhere=['_ZNK11xercesc_4_09ReaderMgr19getCurrentReaderNumEv', '_ZN11xercesc_4_09ReaderMgr7getNameERNS_9XMLBufferE', '_ZN11xercesc_4_09ReaderMgr8getQNameERNS_9XMLBufferEPi', '_ZN11xercesc_4_010DTDGrammar13getEntityDeclEPKDs'],
      defs={'all': {'SCANNER': 'DGXMLScanner'}}, unwind=6, timeout={'quick': 900, 'thorough': 1700}, mem_gb=16),
]
LEVEL_TEXT = ('Path-gate symbolic execution of the real choke point for external resources with the environment cut to recording stubs: for EVERY combination of resolver presence/answers, URL-parsing outcomes and the '
              'configuration flags, no file or URL source constructor is reached unless permitted, the resolver is asked first with the right identifiers, and its source is used instead of the default.')
LEVEL_NOTE = ('NOT claimed: the gates in front of the choke point inside the multi-thousand-line scanner functions (external-subset loading in scanDocTypeDecl, schemaLocation handling), scanEntityRef of the SG/WF scanners and parameter-entity expansion (IGXMLScanner::scanEntityRef IS covered: harness entityref), '
              'RFC 2396 resolution inside XMLURL/XMLUri, actual file/network effects.')
