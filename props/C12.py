# C12 - serialiser: the escaping layer
CLAIMS = {'formatter_pair': 'as formatter for a buffer that is exactly one surrogate pair (every supplementary character x escape mode x XML version): written as ONE character reference', 'formatter': 'XMLFormatter::formatBuf/specialFormat/handleUnEscapedChars/writeCharRef/getCharRef/inEscapeList with a 7-bit transcoder stub (US-ASCII contract): output bytes = reference serialisation for every buffer of N units, every escape mode, XML 1.0/1.1; no access outside the buffer'}
ASSUMPTIONS = ['input is well-formed UTF-16', 'target = byte collector', 'XMLFormatter object built field by field (constructor needs the transcoding service)', 'fixed-block memory manager for the cached entity references', 'hook: the formatter\'s 16 KB staging buffer instantiated at 64 bytes (XERCES_VERIF_TMPBUF); the code is parametric in this constant']
T10 = '_ZN11xercesc_4_010XMLChar1_019fgCharCharsTable1_0E'
T11 = '_ZN11xercesc_4_010XMLChar1_119fgCharCharsTable1_1E'
HARNESSES = [
 dict(name='formatter', entry='harness_formatter', srcs=['C12/formatter.cpp'],
      tus=['framework/XMLFormatter.cpp', 'util/XMLString.cpp', 'util/XMLChar.cpp'], const_tables=[T10, T11],
      defs={'quick': {'N': 1, 'XERCES_VERIF_TMPBUF': 64}, 'thorough': {'N': 2, 'XERCES_VERIF_TMPBUF': 64}}, unwind={'quick': 2, 'thorough': 2}, unwind_cap=24, timeout={'quick': 900, 'thorough': 3000}, mem_gb=24),
 dict(name='formatter_pair', entry='harness_formatter', srcs=['C12/formatter.cpp'],
      tus=['framework/XMLFormatter.cpp', 'util/XMLString.cpp', 'util/XMLChar.cpp'], const_tables=[T10, T11],
      defs={'all': {'N': 2, 'PAIR': 1, 'XERCES_VERIF_TMPBUF': 64}}, unwind={'quick': 2, 'thorough': 2}, unwindset={'__vx_memcpy.0': 14, '__vx_memmove.0': 14, '__vx_memset.0': 14}, unwind_cap=24, timeout={'quick': 900, 'thorough': 3000}, mem_gb=24),
]
LEVEL_TEXT = ('Bounded model checking of the real escaping/transcoding layer of the serialiser against a reference serialisation, for ALL inputs of N UTF-16 units x escape modes x XML versions: '
              'XMLFormatter escapes exactly the characters its mode requires and writes every unrepresentable code point as a character reference (supplementary characters as one reference).')
LEVEL_NOTE = ('NOT claimed: DOMLSSerializer tree walk, namespace fix-up, CDATA splitting, re-parse equality (whole-system). Output encoding: 7-bit stub with the US-ASCII transcoder contract (real transcoders: C05); N = 1 unit (quick) / 2 (thorough: surrogate pairs, escape followed by data). Ill-formed UTF-16 (lone surrogates) is assumed away.')

