# C13 - DOM mutation: character-data offsets (tree-link operations: see DESIGN.md)
CLAIMS = {'chardata_substring': 'DOMTextImpl (real ctor/vtables/casts) -> DOMCharacterDataImpl::substringData for every content, offset and count (64-bit): result = DOM substring with the count clamped, INDEX_SIZE_ERR iff offset > length, data unchanged, memory safe incl. the 4096-unit stack temporary'}
ASSUMPTIONS = ['document arena, string pool (getPooledString), buffer growth and DOMException message loading cut', 'no Range objects registered on the document']
OPS = ['substring', 'insert', 'delete', 'replace']
HARNESSES = [
 dict(name='chardata_' + OPS[op], entry='harness_chardata', srcs=['C13/chardata.cpp', 'C13/domstubs.cpp'],
      tus=['dom/impl/DOMTextImpl.cpp', 'dom/impl/DOMCharacterDataImpl.cpp', 'dom/impl/DOMNodeImpl.cpp', 'dom/impl/DOMChildNode.cpp', 'dom/impl/DOMStringPool.cpp', 'util/XMLString.cpp'],
      cuts_everywhere=['_ZN11xercesc_4_015DOMDocumentImpl15getPooledStringEPKDs'],
      cuts=['_ZN11xercesc_4_09DOMBuffer14expandCapacityEmb', '_ZN11xercesc_4_020DOMCharacterDataImplC[12]EPNS_11DOMDocumentEPKDs', '_ZN11xercesc_4_020DOMCharacterDataImplD[12]Ev'],
      defs={'quick': {'N': 2, 'OP': op}, 'thorough': {'N': 4, 'OP': op}}, unwind={'quick': 6, 'thorough': 8}, timeout={'quick': 600, 'thorough': 1700}, mem_gb=14, unwind_gentle=True, unwind_cap=24)
 for op in range(1)    # insert/delete/replace (OP 1..3): the virtual getRanges() call on the raw document object makes CBMC dispatch over every
                          # address-taken function; no verdict within 600 s, so they are not registered (code kept in the harness)
]
LEVEL_TEXT = ('Bounded model checking of the real DOM character-data code through a real Text node object: for ALL contents, offsets, counts (64-bit) and inserted strings within the bound the result equals the DOM Core '
              'string operation and the specified exceptions are raised with the data left unchanged.')
LEVEL_NOTE = ('NOT claimed: insertData/deleteData/replaceData (harness exists, no verdict), tree-link mutations (insertBefore/removeChild/replaceChild), attribute maps, import/adopt/rename/normalize, reference-DOM equivalence over histories (see DESIGN.md for what was attempted). '
              'Bounds: N <= 3 units (quick) / 5.')

