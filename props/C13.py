# C13 - DOM mutation: character-data offsets (tree-link operations: see DESIGN.md)
CLAIMS = {'chardata_substring': 'DOMTextImpl (real ctor/vtables/casts) -> DOMCharacterDataImpl::substringData for every content, offset and count (64-bit): result = DOM substring with the count clamped, INDEX_SIZE_ERR iff offset > length, data unchanged, memory safe incl. the 4096-unit stack temporary'}
CLAIMS.update({'chardata_' + o: 'DOMTextImpl -> DOMCharacterDataImpl::%s for every content, 64-bit offset/count and inserted string of <= 2 units: data afterwards = the DOM Core string operation (count clamped), INDEX_SIZE_ERR iff offset > length and NO_MODIFICATION_ALLOWED_ERR on a read-only node with the data unchanged, memory safe' % f for o, f in [('insert', 'insertData'), ('delete', 'deleteData'), ('replace', 'replaceData')]})
ASSUMPTIONS = ['document arena, string pool (getPooledString), buffer growth and DOMException message loading cut', 'chardata: the document answers getRanges() with no live Range (live ranges: C14 rangeedit)']
OPS = ['substring', 'insert', 'delete', 'replace']
HARNESSES = [
 dict(name='chardata_' + OPS[op], entry='harness_chardata', srcs=['C13/chardata.cpp', 'C13/domstubs.cpp'],
      tus=['dom/impl/DOMTextImpl.cpp', 'dom/impl/DOMCharacterDataImpl.cpp', 'dom/impl/DOMNodeImpl.cpp', 'dom/impl/DOMChildNode.cpp', 'dom/impl/DOMStringPool.cpp', 'util/XMLString.cpp'],
      cuts_everywhere=['_ZN11xercesc_4_015DOMDocumentImpl15getPooledStringEPKDs'],
      cuts=['_ZN11xercesc_4_09DOMBuffer14expandCapacityEmb', '_ZN11xercesc_4_020DOMCharacterDataImplC[12]EPNS_11DOMDocumentEPKDs', '_ZN11xercesc_4_020DOMCharacterDataImplD[12]Ev'],
      defs={'quick': {'N': 2, 'OP': op}, 'thorough': {'N': 4, 'OP': op}}, unwind={'quick': 6, 'thorough': 8}, timeout={'quick': 600, 'thorough': 1700}, mem_gb=14, unwind_gentle=True, unwind_cap=24)
 for op in range(int(__import__('os').environ.get('VX_C13_OPS', '4')))    # insert/delete/replace (OP 1..3): the virtual getRanges() call on the raw document object makes CBMC dispatch over every
                          # address-taken function; no verdict within 600 s, so they are not registered (code kept in the harness)
]
if __import__('os').environ.get('VX_C13_TREE'): CLAIMS.update({'treelinks_' + o + '_' + pn: 'DOMParentNode::%s on a parent that is %s, through real Element/Text/DocumentFragment objects, one operation from every well-formed forest over 4 nodes with arbitrary child operands: resulting tree = DOM Core reference model, illegal operations raise the named DOMException and change nothing' % (f, pd)
               for o, f in [('insert', 'insertBefore/appendChild'), ('remove', 'removeChild'), ('replace', 'replaceChild')] for pn, pd in [('elem', 'an element'), ('frag', 'a document fragment'), ('text', 'a text node')]})
ASSUMPTIONS += ['treelinks: attribute maps / default attributes of the element constructor cut; document virtuals getRanges/getNodeIterators/changed served by stubs (no live views: C14)', 'treelinks: replaceChild(n, n) not judged (implementation dependent in DOM Core)']
TOPS = ['insert', 'remove', 'replace']; TPAR = {0: 'elem', 3: 'frag', 2: 'text'}
HARNESSES += [
 dict(name='treelinks_' + TOPS[op] + '_' + TPAR[par], entry='harness_treelinks', srcs=['C13/treelinks.cpp', 'C13/domstubs.cpp', 'C13/elemstubs.cpp'],
      tus=['dom/impl/DOMParentNode.cpp', 'dom/impl/DOMElementImpl.cpp', 'dom/impl/DOMTextImpl.cpp', 'dom/impl/DOMDocumentFragmentImpl.cpp', 'dom/impl/DOMDocumentImpl.cpp', 'dom/impl/DOMCharacterDataImpl.cpp',
           'dom/impl/DOMNodeImpl.cpp', 'dom/impl/DOMChildNode.cpp', 'dom/impl/DOMNodeListImpl.cpp', 'dom/impl/DOMStringPool.cpp', 'util/XMLString.cpp'],
      cuts_everywhere=['_ZN11xercesc_4_015DOMDocumentImpl15getPooledStringEPKDs', '_ZnwmPN11xercesc_4_015DOMDocumentImplE'],
      cuts=['_ZN11xercesc_4_09DOMBuffer14expandCapacityEmb', '_ZN11xercesc_4_020DOMCharacterDataImplC[12]EPNS_11DOMDocumentEPKDs', '_ZN11xercesc_4_020DOMCharacterDataImplD[12]Ev',
            '_ZN11xercesc_4_014DOMElementImpl22setupDefaultAttributesEv', '_ZNK11xercesc_4_015DOMDocumentImpl*', '_ZN11xercesc_4_015DOMDocumentImpl[!7]*', '_ZN11xercesc_4_015DOMDocumentImpl7[!i]*', '_ZNK11xercesc_4_011DOMNodeImpl20callUserDataHandlersENS_18DOMUserDataHandler16DOMOperationTypeEPKNS_7DOMNodeEPS3_'],
      defs={'all': dict({'OP': op, 'P': par}, **({'CFIX': int(__import__('os').environ['VX_CFIX'])} if __import__('os').environ.get('VX_CFIX') else {}), **({'NOOP': 1} if __import__('os').environ.get('VX_NOOP') else {}), **({'SMALL': 1} if __import__('os').environ.get('VX_SMALL') else {}))}, unwind={'quick': 6, 'thorough': 6}, timeout={'quick': 1500, 'thorough': 3000}, mem_gb=24, cbmc_flags=['--sat-solver', 'cadical'])
 for par in (0, 3, 2) for op in range(3 if __import__('os').environ.get('VX_C13_TREE') else 0)      # gated until the harness reaches a verdict
]
CLAIMS.update({'childlist_' + o: 'DOMParentNode::%s on one real element with up to three real text children, arbitrary operands: representation of every node = DOM Core result, NOT_FOUND_ERR for non-children with nothing changed' % f for o, f in [('remove', 'removeChild')]})
HARNESSES += [
 dict(name='childlist_' + nm, entry='harness_childlist', srcs=['C13/childlist.cpp', 'C13/domstubs.cpp', 'C13/elemstubs.cpp'],
      tus=['dom/impl/DOMParentNode.cpp', 'dom/impl/DOMElementImpl.cpp', 'dom/impl/DOMTextImpl.cpp', 'dom/impl/DOMDocumentImpl.cpp', 'dom/impl/DOMCharacterDataImpl.cpp',
           'dom/impl/DOMNodeImpl.cpp', 'dom/impl/DOMChildNode.cpp', 'dom/impl/DOMNodeListImpl.cpp', 'dom/impl/DOMStringPool.cpp', 'util/XMLString.cpp'],
      cuts_everywhere=['_ZN11xercesc_4_015DOMDocumentImpl15getPooledStringEPKDs', '_ZnwmPN11xercesc_4_015DOMDocumentImplE'],
      cuts=['_ZN11xercesc_4_09DOMBuffer14expandCapacityEmb', '_ZN11xercesc_4_020DOMCharacterDataImplC[12]EPNS_11DOMDocumentEPKDs', '_ZN11xercesc_4_020DOMCharacterDataImplD[12]Ev',
            '_ZN11xercesc_4_014DOMElementImpl22setupDefaultAttributesEv', '_ZNK11xercesc_4_015DOMDocumentImpl*', '_ZN11xercesc_4_015DOMDocumentImpl[!7]*', '_ZN11xercesc_4_015DOMDocumentImpl7[!i]*', '_ZNK11xercesc_4_011DOMNodeImpl20callUserDataHandlersENS_18DOMUserDataHandler16DOMOperationTypeEPKNS_7DOMNodeEPS3_'],
      defs={'all': dict({'OP': op}, **({'MODE': mode} if op == 0 else {}))}, unwind=4 if op == 0 else 6, unwind_gentle=True, unwind_cap=8, timeout={'quick': 1500, 'thorough': 2400}, mem_gb=40)
 for op, mode, nm in (((0, 0, 'add'), (0, 1, 'move')) if __import__('os').environ.get('VX_C13_INSERT') else ()) + ((1, 0, 'remove'),)      # insertBefore: solver out of memory at 40 GB (gated off, not claimed)
]
LEVEL_TEXT = ('Bounded model checking of the real DOM character-data code through a real Text node object (for ALL contents, offsets, counts (64-bit) and inserted strings within the bound the result equals the DOM Core '
              'string operation and the specified exceptions are raised with the data left unchanged) and of removeChild on a real element with up to three real text children (every list length and operand: the representation of every node '
              'equals the DOM Core result; a non-child raises NOT_FOUND_ERR and changes nothing).')
LEVEL_NOTE = ('NOT claimed: insertBefore/appendChild/replaceChild and general forests (harnesses treelinks_* and childlist_add/move exist, no verdict: solver out of memory, see DESIGN.md 7.6), attribute maps, import/adopt/rename/normalize, '
              'reference-DOM equivalence over histories. Bounds: chardata N <= 2 units (quick) / 4; childlist: one element, three text nodes.')

