# C09 - schema datatypes: lexical / value space / canonical forms
CLAIMS = {
 'decimal': 'XMLBigDecimal::parseDecimal (both overloads) on every string of <= N units: accepted iff xs:decimal lexical space after trimming, exact sign / digit string / totalDigits / fractDigits, memory safe',
 'deccmp*': 'XMLBigDecimal constructor / setDecimalValue / compareValues on every pair of accepted literals of <= N units: the result is the order of the two rational VALUES (equal values compare equal whatever their spelling, antisymmetric), also after re-assigning the left operand',
 'wsfacet': 'XMLString::replaceWS/collapseWS/removeWS/isWSReplaced/isWSCollapsed on every string of <= N units: exact whiteSpace-facet normalisation, predicates exact on fixed points, idempotent, memory safe',
 'dtparse_*': 'XMLDateTime::parseDate / parseYearMonth / parseYear / parseMonthDay / parseDay / parseMonth on every zero-terminated buffer of <= N units (arbitrary units behind the terminator): memory safe; for non-negative years accepted iff in the lexical space of the type with valid month/day/time zone',
 'durcmp': 'XMLDateTime::compare(d1, d2, strict) (addDuration / compareOrder / compareResult) on every pair of non-negative durations in field form (quick: months <= 3, days <= 63, other fields 0; thorough: months <= 5, days <= 63, hours <= 24): the verdict is the partial order of XML Schema Part 2 3.2.6.2 over the four reference dateTimes (less / equal / greater when all four agree, indeterminate when they disagree)',
 'dt_normalize': 'XMLDateTime::normalize for every valid timezoned instant: fields equal the loop-free reference (same instant in UTC), in range, marked UTC',
 'hexbin': 'HexBin::isArrayByteHex/getDataLength/decodeToXMLByte/getCanonicalRepresentation on every string of <= N units: accepted iff XSD lexical space, exact decode, canonical = upper case, idempotent, memory safe',
 'base64': 'Base64::decodeToXMLByte/getDataLength/getCanonicalRepresentation/encode (Conf_Schema) on every string of <= N units: accepted iff XSD E2-54 grammar, exact decode, encode(decode) canonical, memory safe',
}
ASSUMPTIONS = ['MemoryManager stub returns fresh non-null blocks; XMLPlatformUtils::fgMemoryManager unused (a manager is always passed)']
COMMON = ['util/XMLString.cpp', 'util/XMLChar.cpp', 'util/JanitorExports.cpp']
T10 = '_ZN11xercesc_4_010XMLChar1_019fgCharCharsTable1_0E'
T11 = '_ZN11xercesc_4_010XMLChar1_119fgCharCharsTable1_1E'
HARNESSES = [
 dict(name='hexbin', entry='harness_hexbin', srcs=['C09/hexbin.cpp'], tus=['util/HexBin.cpp'] + COMMON, const_tables=[T10, T11],
      defs={'quick': {'N': 4}, 'thorough': {'N': 6}}, unwind='N+3'),
 dict(name='base64', entry='harness_base64', srcs=['C09/base64.cpp'], tus=['util/Base64.cpp'] + COMMON, const_tables=[T10, T11],
      defs={'quick': {'N': 5}, 'thorough': {'N': 8}}, unwind='N+3'),
 dict(name='decimal', entry='harness_decimal', srcs=['C09/decimal.cpp'], tus=['util/XMLBigDecimal.cpp'] + COMMON, const_tables=[T10],
      defs={'quick': {'N': 4}, 'thorough': {'N': 6}}, unwind='N+3', unwind_gentle=True, unwind_cap=40, timeout={'quick': 900, 'thorough': 2400}, mem_gb=16),
 dict(name='deccmp', entry='harness_deccmp', srcs=['C09/deccmp.cpp'], tus=['util/XMLBigDecimal.cpp', 'util/XMLNumber.cpp'] + COMMON, const_tables=[T10],
      defs={'quick': {'N': 3, 'HISTORY': 0}, 'thorough': {'N': 4, 'HISTORY': 0}}, unwind='N+3', unwind_gentle=True, unwind_cap=40, timeout={'quick': 900, 'thorough': 2400}, mem_gb=16),
 dict(name='deccmp_reassign', entry='harness_deccmp', srcs=['C09/deccmp.cpp'], tus=['util/XMLBigDecimal.cpp', 'util/XMLNumber.cpp'] + COMMON, const_tables=[T10],
      defs={'quick': {'N': 3, 'HISTORY': 1}, 'thorough': {'N': 4, 'HISTORY': 1}}, unwind='N+3', unwind_gentle=True, unwind_cap=40, timeout={'quick': 900, 'thorough': 2400}, mem_gb=16),
 dict(name='wsfacet', entry='harness_wsfacet', srcs=['C09/wsfacet.cpp'], tus=['util/XMLString.cpp'],
      defs={'quick': {'N': 5}, 'thorough': {'N': 7}}, unwind='N+3', unwind_gentle=True, unwind_cap=40, timeout={'quick': 900, 'thorough': 2400}),
 ] + [
 dict(name='dtparse_' + nm, entry='harness_dateparse', srcs=['C09/dateparse.cpp'], tus=['util/XMLDateTime.cpp', 'util/XMLString.cpp'], cuts=['_ZN11xercesc_4_09XMLString9binToTextE*', '_ZN11xercesc_4_09XMLString10sizeToTextE*'],
      defs={'quick': {'N': nq, 'OP': op}, 'thorough': {'N': nt, 'OP': op}}, unwind='N+9', unwind_gentle=True, unwind_cap=48, timeout={'quick': 1200, 'thorough': 3000}, mem_gb=20)
 for op, nm, nq, nt in ((0, 'date', 12, 13), (1, 'gYearMonth', 9, 13), (2, 'gYear', 11, 12), (3, 'gMonthDay', 8, 13), (4, 'gDay', 6, 11), (5, 'gMonth', 7, 12))
 ] + [
 dict(name='durcmp', entry='harness_durcmp', srcs=['C09/durcmp.cpp'], tus=['util/XMLDateTime.cpp', 'util/XMLNumber.cpp'], cbmc_flags=['--sat-solver', 'cadical'],
      defs={'quick': {'MAXY': 0, 'MAXMO': 3, 'MAXD': 63, 'MAXH': 0, 'MAXMS': 0}, 'thorough': {'MAXY': 0, 'MAXMO': 5, 'MAXD': 63, 'MAXH': 24, 'MAXMS': 0}}, unwind={'quick': 10, 'thorough': 10}, timeout={'quick': 1200, 'thorough': 3000}, mem_gb=16),
 dict(name='dt_normalize', entry='harness_dt_normalize', srcs=['C09/datetime.cpp'], tus=['util/XMLDateTime.cpp'], unwind=4, timeout={'quick': 600, 'thorough': 1700}),
]
LEVEL_TEXT = ('Bounded model checking of the real datatype kernels against references written from XML Schema Part 2: for ALL strings up to the stated length '
              '(full 16-bit code units, so out-of-range characters and embedded separators are included) acceptance equals lexical-space membership, decoded values and canonical forms are exact; the ORDER of xs:decimal equals exact rational comparison for every pair of literals, and the partial order of xs:duration equals the four-reference-dateTime definition for every pair of bounded durations.')
LEVEL_NOTE = ('Bounds per harness in evidence. Not covered: float/double (floating point declined), negative durations, fractional seconds and the duration lexical scanner, list/union validators, facet inheritance through DatatypeValidatorFactory, XSValue mirror. '
              'Cuts: XMLException message loading, XMemory new/delete -> malloc. Trusted: clang-14, ir2c, CBMC, harness references.')
