# C05 - transcoders and encoding detection
CLAIMS = {
 'utf8_encode': 'XMLUTF8Transcoder::transcodeTo for every source of <= N units (ill-formed included), srcCount, maxBytes <= 6, both options: never writes at or behind toFill+maxBytes; for well-formed input bytes = UTF-8 of the longest fitting prefix of whole characters, exact counts',
 'utf8_decode': 'XMLUTF8Transcoder::transcodeFrom (real object, real ctor, vtable call): for every byte string of length <= N, srcCount <= N, maxChars <= N: '
                'throws iff the next complete sequence is ill-formed per Unicode Table 3-7, otherwise output/charSizes/bytesEaten equal the reference decoder',
}
ASSUMPTIONS = ['XMLException message loading is cut (code recorded only)', 'MemoryManager stub returns fresh non-null blocks']
HARNESSES = [
 dict(name='utf8_encode', entry='harness_utf8_encode', srcs=['C05/utf8_encode.cpp'], tus=['util/XMLUTF8Transcoder.cpp'],
      defs={'quick': {'N': 3}, 'thorough': {'N': 4}}, unwind={'quick': 12, 'thorough': 12}, timeout={'quick': 600, 'thorough': 1500}),
 dict(name='utf8_decode', entry='harness_utf8_decode', srcs=['C05/utf8_decode.cpp'], tus=['util/XMLUTF8Transcoder.cpp'],
      defs={'quick': {'N': 4}, 'thorough': {'N': 6}}, unwind={'quick': 'N+2', 'thorough': 'N+2'}, timeout={'quick': 300, 'thorough': 1500}),

 dict(name='ucs4_decode', entry='harness_ucs4_decode', srcs=['C05/ucs4.cpp'], tus=['util/XMLUCS4Transcoder.cpp'],
      defs={'quick': {'NW': 2}, 'thorough': {'NW': 3}}, unwind='4*NW+2'),
 dict(name='ucs4_encode', entry='harness_ucs4_encode', srcs=['C05/ucs4.cpp'], tus=['util/XMLUCS4Transcoder.cpp'],
      defs={'quick': {'NC': 3}, 'thorough': {'NC': 5}}, unwind='NC+2'),
 dict(name='utf16', entry='harness_utf16', srcs=['C05/utf16.cpp'], tus=['util/XMLUTF16Transcoder.cpp'],
      defs={'quick': {'NU': 3}, 'thorough': {'NU': 6}}, unwind='2*NU+3'),
] + [
 dict(name='table256_' + nm, entry='harness_table256', srcs=['C05/table256.cpp'],
      tus=['util/XML256TableTranscoder.cpp', 'util/' + tu, 'util/XMLString.cpp'], defs={'all': {'WHICH': i}}, unwind=12)
 for i, (nm, tu) in enumerate([('win1252', 'XMLWin1252Transcoder.cpp'), ('ibm037', 'XMLEBCDICTranscoder.cpp'),
                               ('ibm1047', 'XMLIBM1047Transcoder.cpp'), ('ibm1140', 'XMLIBM1140Transcoder.cpp')])
]

LEVEL_TEXT = ('Bounded model checking of the real transcoder code (objects built by their real constructors, calls through the real vtables, real throw sites): '
              'for ALL byte strings / code-unit strings up to the stated length, all srcCount/maxChars/maxBytes, both byte orders, decode and encode equal a '
              'reference written from the Unicode/XML specifications (UTF-8 Table 3-7 exactness incl. every overlong/surrogate/out-of-range/truncated case, UCS-4 scalar-value range, '
              'UTF-16 byte order, single-byte code pages: every byte, every 16-bit unit, every 32-bit code point for canTranscodeTo). '
              'The solver covers the whole input space within the bound, which the 3-document test suite never touches.')
LEVEL_NOTE = ('Bounds: UTF-8 N<=4 bytes (quick) / 6 (thorough); UCS-4 2/3 words; UTF-16 3/6 units; code pages: one symbolic byte, unit and code point (exhaustive). '
              'Not covered: ICU-provided encodings, alias lookup, whole documents re-encoded, encoding auto-detection beyond the harnesses listed in evidence. '
              'Cuts: XMLException message loading, XMLTranscoder base ctor, XMemory new/delete -> malloc. Trusted: clang-14, ir2c (validated per run), CBMC.')
