# C05 - transcoders and encoding detection
CLAIMS = {
 'utf8_decode': 'XMLUTF8Transcoder::transcodeFrom (real object, real ctor, vtable call): for every byte string of length <= N, srcCount <= N, maxChars <= N: '
                'throws iff the next complete sequence is ill-formed per Unicode Table 3-7, otherwise output/charSizes/bytesEaten equal the reference decoder',
}
ASSUMPTIONS = ['XMLException message loading is cut (code recorded only)', 'MemoryManager stub returns fresh non-null blocks']
HARNESSES = [
 dict(name='utf8_decode', entry='harness_utf8_decode', srcs=['C05/utf8_decode.cpp'], tus=['util/XMLUTF8Transcoder.cpp'],
      defs={'quick': {'N': 4}, 'thorough': {'N': 6}}, unwind={'quick': 'N+2', 'thorough': 'N+2'}, timeout={'quick': 300, 'thorough': 1500}),
]
