# C18 - MemoryManager discipline
CLAIMS = {'xmemory': 'XMemory::operator new(size)/new(size,mgr)/delete(p)/delete(p,mgr): every block returns to the manager that allocated it exactly once, for symbolic sizes/managers/destruction orders',
          'janitor': 'Janitor / ArrayJanitor / JanitorMemFunCall: release, orphan, reset, destructor delete exactly what is owned, via the given manager'}
ASSUMPTIONS = ['ledger MemoryManager stub over malloc/free', 'single-threaded']
HARNESSES = [
 dict(name='xmemory', entry='harness_xmemory', srcs=['C18/xmemory.cpp'], tus=['util/XMemory.cpp', 'util/JanitorExports.cpp'], unwind=6, timeout=300),
 dict(name='janitor', entry='harness_janitor', srcs=['C18/xmemory.cpp'], tus=['util/XMemory.cpp', 'util/JanitorExports.cpp'], unwind=6, timeout=300),
]
LEVEL_TEXT = ('Bounded model checking of the real allocation header code (XMemory.cpp) and scope guards (Janitor.c) with ledger managers: for ALL choices of manager, object size and destruction order within the '
              'bound every block is released exactly once to the manager that allocated it, including the exceptional exits of the codec/parse kernels listed in evidence.')
LEVEL_NOTE = ('Whole-parse leak freedom (scanner, grammar, DOM arena), handler exceptions at the k-th callback and Initialize/Terminate sequencing are NOT claimed (whole-system). '
              'Bounds: 3 objects, 3 managers; kernels per harness in evidence.')
