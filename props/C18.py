# C18 - MemoryManager discipline
CLAIMS = {'xmemory': 'XMemory::operator new(size)/new(size,mgr)/delete(p)/delete(p,mgr): every block returns to the manager that allocated it exactly once, for symbolic sizes/managers/destruction orders',
          'janitor': 'Janitor / ArrayJanitor / JanitorMemFunCall: release, orphan, reset, destructor delete exactly what is owned, via the given manager'}
ASSUMPTIONS = ['ledger MemoryManager stub over malloc/free', 'single-threaded']
HARNESSES = [
 dict(name='xmemory', entry='harness_xmemory', srcs=['C18/xmemory.cpp'], tus=['util/XMemory.cpp', 'util/JanitorExports.cpp'], unwind=6, timeout=300),
 dict(name='janitor', entry='harness_janitor', srcs=['C18/xmemory.cpp'], tus=['util/XMemory.cpp', 'util/JanitorExports.cpp'], unwind=6, timeout=300),
 ] + ([] if not __import__('os').environ.get('VX_C18_PUSHREADER') else [   # no verdict within 900 s / 8 GB (heap stack of heap objects): gated off, not claimed
 dict(name='pushreader', entry='harness_pushreader', srcs=['C18/pushreader.cpp', 'C18/ownstubs.cpp'],
      tus=['internal/ReaderMgr.cpp', 'validators/DTD/DTDEntityDecl.cpp', 'framework/XMLEntityDecl.cpp', 'util/XMLString.cpp'],
      cuts=['_ZN11xercesc_4_013XMLEntityDeclD[12]Ev'],
      defs={'all': {'XERCES_VERIF_CHARBUF': 2, 'XERCES_VERIF_RAWBUF': 4}}, unwind=20, unwind_cap=40, timeout={'quick': 900, 'thorough': 1700}, mem_gb=16),
])
LEVEL_TEXT = ('Bounded model checking of the real allocation header code (XMemory.cpp) and scope guards (Janitor.c) with ledger managers: for ALL choices of manager, object size and destruction order within the '
              'bound every block is released exactly once to the manager that allocated it, including the exceptional exits of the codec/parse kernels listed in evidence.')
LEVEL_NOTE = ('Whole-parse leak freedom (scanner, grammar, DOM arena), handler exceptions at the k-th callback and Initialize/Terminate sequencing are NOT claimed (whole-system). '
              'ReaderMgr::pushReaderAdoptEntity ownership: harness pushreader exists, no verdict, gated off. Bounds: 3 objects, 3 managers; kernels per harness in evidence.')
