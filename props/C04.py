# C04 - independence from input chunking and buffer alignment (also carries the C01 reader invariant)
CLAIMS = {'reader_chunks3': 'as reader_chunks with a three-byte decoder stub: a character may need two further reads before it can be decoded (single-byte reads)', 'reader_chunks': 'XMLReader refreshCharBuffer/xcodeMoreChars/refreshRawBuffer/handleEOL/getNextChar + two-byte decoder stub honouring the transcoder contract, window CHARBUF/RAWBUF via hook: '
          'arbitrary chunking and low-water mark => characters, line/column, outcome equal decode+normalise of the whole byte string; invariant and memory safety at every step'}
ASSUMPTIONS = ['hook: XMLReader instantiated with a small character/raw window (the code is parametric in these two constants)', 'stream contract: returns 1..max bytes while data remains, 0 at end', 'XML 1.0 character table, NEL recognition off']
T10 = '_ZN11xercesc_4_010XMLChar1_019fgCharCharsTable1_0E'
T11 = '_ZN11xercesc_4_010XMLChar1_119fgCharCharsTable1_1E'
TUS = ['internal/XMLReader.cpp', 'util/BinInputStream.cpp']
HARNESSES = [
 dict(name='reader_chunks', entry='harness_reader_chunks', srcs=['C04/reader.cpp'], tus=TUS, const_tables=[T10, T11],
      defs={'quick': {'N': 6, 'XERCES_VERIF_CHARBUF': 2, 'XERCES_VERIF_RAWBUF': 4}, 'thorough': {'N': 8, 'XERCES_VERIF_CHARBUF': 3, 'XERCES_VERIF_RAWBUF': 6}},
      unwind={'quick': 5, 'thorough': 6}, unwind_gentle=True, unwind_cap=12, timeout={'quick': 900, 'thorough': 1700}, mem_gb=16),
 dict(name='reader_chunks3', entry='harness_reader_chunks', srcs=['C04/reader.cpp'], tus=TUS, const_tables=[T10, T11],
      defs={'quick': {'N': 9, 'UNIT': 3, 'XERCES_VERIF_CHARBUF': 2, 'XERCES_VERIF_RAWBUF': 4}, 'thorough': {'N': 9, 'UNIT': 3, 'XERCES_VERIF_CHARBUF': 2, 'XERCES_VERIF_RAWBUF': 5}},
      unwind={'quick': 5, 'thorough': 6}, unwind_gentle=True, unwind_cap=12, timeout={'quick': 900, 'thorough': 2400}, mem_gb=16),
]
LEVEL_TEXT = ('Bounded model checking (the real reader against a reference computed from the whole byte string) of the buffer-refill layer with the two-byte decoder stub honouring the transcoder contract: for ALL inputs of N bytes and ALL partitions of the '
              'byte stream into reads, with the refill points forced inside the input by a small window, the delivered characters, positions and outcome are identical and the reader invariant holds.')
LEVEL_NOTE = ('Window sizes 2/4 (quick), 3/6 (thorough) instead of 16K/48K (hook; arithmetic depending on the magnitude of the real constants is outside the claim). NOT claimed: file/stdin/memory stream classes, '
              'external entities, token scanners straddling refills (getName, skippedString, ...), error positions in whole documents.')

