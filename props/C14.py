# C14 - live views under mutation: Range boundary-point fix-up for character-data edits
CLAIMS = {'rangetext_' + o: 'DOMRangeImpl::%s from an arbitrary valid range state over real Text/Comment/DocumentFragment nodes: both boundary points end where DOM Level 2 Range 2.12 puts them and stay valid (offset <= new length, start <= end)' % f
          for o, f in [('insert', 'updateRangeForInsertedText'), ('delete', 'updateRangeForDeletedText'), ('split', 'updateSplitInfo'), ('replace', 'receiveReplacedText')]}
ASSUMPTIONS = ['the fix-up functions are called with the arguments their call sites pass (offset <= length; deleteData has clamped count to the end)',
               'lengths, offsets and counts < 2^62 (no wrap-around in the reference arithmetic)', 'document object is raw storage; character-data constructor cut (no arena)']
OPS = ['insert', 'delete', 'split', 'replace']
HARNESSES = [
 dict(name='rangetext_' + OPS[op], entry='harness_rangetext', srcs=['C14/rangetext.cpp', 'C13/domstubs.cpp'],
      tus=['dom/impl/DOMRangeImpl.cpp', 'dom/impl/DOMTextImpl.cpp', 'dom/impl/DOMCommentImpl.cpp', 'dom/impl/DOMDocumentFragmentImpl.cpp', 'dom/impl/DOMCharacterDataImpl.cpp',
           'dom/impl/DOMNodeImpl.cpp', 'dom/impl/DOMChildNode.cpp', 'dom/impl/DOMParentNode.cpp', 'dom/impl/DOMNodeListImpl.cpp', 'dom/impl/DOMStringPool.cpp', 'util/XMLString.cpp'],
      cuts_everywhere=['_ZN11xercesc_4_015DOMDocumentImpl15getPooledStringEPKDs'],
      cuts=['_ZN11xercesc_4_09DOMBuffer14expandCapacityEmb', '_ZN11xercesc_4_020DOMCharacterDataImplC[12]EPNS_11DOMDocumentEPKDs', '_ZN11xercesc_4_020DOMCharacterDataImplD[12]Ev'],
      defs={'all': {'OP': op}}, cbmc_flags=['--sat-solver', 'cadical'], unwind={'quick': 4, 'thorough': 4}, timeout={'quick': 600, 'thorough': 1700}, mem_gb=14)
 for op in range(4)
]
LEVEL_TEXT = ('Bounded model checking of the real Range fix-up code for character-data edits, one step from an arbitrary valid range state (inductive-step style): for ALL containers among real Text/Comment/'
              'DocumentFragment nodes and ALL 62-bit offsets, lengths and edit sizes the boundary points end where DOM Range specifies and remain valid.')
LEVEL_NOTE = ('NOT claimed: node insertion/removal fix-up of ranges (updateRangeForInsertedNode/DeletedNode), NodeIterator (harness iterfix exists for the removal fix-up, no verdict: gated off), TreeWalker/deep node lists/getElementById/XPath results, range content operations (extract/clone/delete/surround). '
              'rangetext_*: the fix-up functions driven directly from an arbitrary range state; rangeedit_*: the real call sites (insertData/deleteData/replaceData on a text node with a live Range registered on the document).')

# end-to-end: real insertData/deleteData/replaceData with a live Range registered on the document
CLAIMS.update({'rangeedit_' + o: 'DOMTextImpl::%s (real call sites) with one live Range in the node: boundary points end where DOM Range puts them, stay valid; refused edits leave the Range untouched' % f
               for o, f in [('insert', 'insertData'), ('delete', 'deleteData'), ('replace', 'replaceData')]})
ASSUMPTIONS += ['rangeedit: both boundary points of the Range lie in the edited text node; content <= N units, inserted string <= 2 units; document arena/string pool/buffer growth cut as in C13']
EOPS = {1: 'insert', 2: 'delete', 3: 'replace'}
HARNESSES += [
 dict(name='rangeedit_' + EOPS[op], entry='harness_rangeedit', srcs=['C14/rangeedit.cpp', 'C13/domstubs.cpp'],
      tus=['dom/impl/DOMRangeImpl.cpp', 'dom/impl/DOMTextImpl.cpp', 'dom/impl/DOMCharacterDataImpl.cpp', 'dom/impl/DOMNodeImpl.cpp', 'dom/impl/DOMChildNode.cpp', 'dom/impl/DOMStringPool.cpp', 'util/XMLString.cpp'],
      cuts_everywhere=['_ZN11xercesc_4_015DOMDocumentImpl15getPooledStringEPKDs'],
      cuts=['_ZN11xercesc_4_09DOMBuffer14expandCapacityEmb', '_ZN11xercesc_4_020DOMCharacterDataImplC[12]EPNS_11DOMDocumentEPKDs', '_ZN11xercesc_4_020DOMCharacterDataImplD[12]Ev'],
      defs={'quick': {'N': 2, 'OP': op}, 'thorough': {'N': 3, 'OP': op}}, unwind={'quick': 6, 'thorough': 8}, timeout={'quick': 900, 'thorough': 2400}, mem_gb=14, unwind_gentle=True, unwind_cap=24)
 for op in (1, 2, 3)
]

# NodeIterator fix-up on removal (fixed tree, arbitrary iterator state)
if __import__('os').environ.get('VX_C14_ITER'): CLAIMS.update({'iterfix_' + nm: 'DOMNodeIteratorImpl::removeNode(%s) on the tree R(A(A1,A2),B) of real Element/Text objects, arbitrary reference node and direction:' % nm for nm in ('A', 'A1', 'A2', 'B')} if False else {'iterfix_' + nm: 'DOMNodeIteratorImpl::removeNode(' + nm + ') on the tree R(A(A1,A2),B) of real Element/Text objects, arbitrary reference node and direction: new reference node and direction as DOM Level 2 Traversal 1.1.1 prescribes, never inside the removed subtree' for nm in ('A', 'A1', 'A2', 'B')})

HARNESSES += [
 dict(name='iterfix_' + nm, entry='harness_iterfix', srcs=['C14/iterfix.cpp', 'C13/domstubs.cpp', 'C13/elemstubs.cpp'],
      tus=['dom/impl/DOMNodeIteratorImpl.cpp', 'dom/impl/DOMElementImpl.cpp', 'dom/impl/DOMTextImpl.cpp', 'dom/impl/DOMParentNode.cpp', 'dom/impl/DOMCharacterDataImpl.cpp',
           'dom/impl/DOMNodeImpl.cpp', 'dom/impl/DOMChildNode.cpp', 'dom/impl/DOMNodeListImpl.cpp', 'dom/impl/DOMStringPool.cpp', 'util/XMLString.cpp'],
      cuts_everywhere=['_ZN11xercesc_4_015DOMDocumentImpl15getPooledStringEPKDs', '_ZnwmPN11xercesc_4_015DOMDocumentImplE'],
      cuts=['_ZN11xercesc_4_09DOMBuffer14expandCapacityEmb', '_ZN11xercesc_4_020DOMCharacterDataImplC[12]EPNS_11DOMDocumentEPKDs', '_ZN11xercesc_4_020DOMCharacterDataImplD[12]Ev',
            '_ZN11xercesc_4_014DOMElementImpl22setupDefaultAttributesEv', '_ZNK11xercesc_4_011DOMNodeImpl20callUserDataHandlersENS_18DOMUserDataHandler16DOMOperationTypeEPKNS_7DOMNodeEPS3_'],
      defs={'all': {'REM': rem}}, unwind=8, timeout={'quick': 1200, 'thorough': 2400}, mem_gb=24)
 for rem, nm in (((1, 'A'), (2, 'A1'), (3, 'A2'), (4, 'B')) if __import__('os').environ.get('VX_C14_ITER') else ())      # solver out of memory at 24 GB: gated off, not claimed
]
