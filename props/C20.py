# C20 - XInclude: href resolution and inclusion-loop bookkeeping kernels
CLAIMS = {'location': 'XIncludeLocation ctor / prependPath / dtor on all href/base strings within the bound: exact result, exact release, memory safe',
          'protocol': 'XIncludeLocation::findEndOfProtocol on all strings <= NS units: strips exactly file:/// ftp:/// http:///, never reads past the terminator',
          'history': 'XIncludeUtils inclusion history push/pop/isIn/free under all scripts <= K: isIn(u) iff u is on the stack; LIFO; no leak'}
ASSUMPTIONS = ['strings without ".." (the /seg/../ normalisation of removeDotDotSlash is executed but not specified)', 'XMLPlatformUtils::fgMemoryManager = fixed-block stub manager']
T10 = '_ZN11xercesc_4_010XMLChar1_019fgCharCharsTable1_0E'
T11 = '_ZN11xercesc_4_010XMLChar1_119fgCharCharsTable1_1E'
TUS = ['xinclude/XIncludeLocation.cpp', 'util/PlatformUtils.cpp', 'util/XMLString.cpp', 'util/JanitorExports.cpp', 'util/XMLChar.cpp']
HARNESSES = [
 dict(name='location', entry='harness_location', srcs=['C20/location.cpp'], tus=TUS, const_tables=[T10, T11],
      cuts=['_ZN11xercesc_4_016XMLPlatformUtils17removeDotDotSlashEPDsPNS_13MemoryManagerE'],
      defs={'quick': {'NH': 3, 'NB': 3, 'CUT_DOTDOT': 1}, 'thorough': {'NH': 6, 'NB': 4, 'CUT_DOTDOT': 1}}, unwind={'quick': 12, 'thorough': 16}, timeout={'quick': 300, 'thorough': 1700}),
 dict(name='dotdot', entry='harness_dotdot', srcs=['C20/location.cpp'], tus=TUS, const_tables=[T10, T11],
      defs={'quick': {'ND': 2}, 'thorough': {'ND': 4}}, unwind={'quick': 7, 'thorough': 9}, timeout={'quick': 300, 'thorough': 1700}, no_unwind_adapt=True),
 dict(name='protocol', entry='harness_protocol', srcs=['C20/location.cpp'], tus=TUS, const_tables=[T10, T11],
      defs={'quick': {'NS': 9}, 'thorough': {'NS': 10}}, unwind={'quick': 12, 'thorough': 13}, timeout={'quick': 600, 'thorough': 1700}),
 dict(name='history', entry='harness_history', srcs=['C20/history.cpp'], tus=['xinclude/XIncludeUtils.cpp', 'util/XMLString.cpp', 'util/XMLChar.cpp'], const_tables=[T10, T11],
      defs={'quick': {'K': 3}, 'thorough': {'K': 5}}, unwind={'quick': 6, 'thorough': 8}, timeout={'quick': 300, 'thorough': 1700}),
]
LEVEL_TEXT = ('Bounded model checking of the XInclude kernels that are within reach: href resolution against a base (XIncludeLocation) for ALL strings within the bound, scheme-prefix stripping, '
              'and the inclusion-history stack that implements loop detection for ALL push/pop scripts within the bound.')
LEVEL_NOTE = ('Merged-tree equality, xml:base fix-up on real DOM trees, text inclusion, fallback processing need parsing and DOM trees and are NOT claimed. Bounds in evidence. '
              'Cuts: XMLException message loading, XMemory new/delete; fixed-block memory manager (accesses bounds-checked against the block, not the request).')
