# C11 - regular expressions: only the range algebra is within reach (see DESIGN.md)
CLAIMS = {'rangetoken_complement': 'RangeToken::complementRanges (with the addRange calls it makes) on every canonical list of one range with symbolic bounds: the fresh token denotes exactly [0,0x10FFFF] minus the class, is canonical, operand unchanged',
          'rangetoken*': 'RangeToken::addRange/sortRanges/compactRanges/mergeRanges/subtractRanges/intersectRanges/expand on lists built from symbolic endpoints: '
          'result denotes exactly the set-theoretic result for every character; compaction canonicalises'}
ASSUMPTIONS = ['Token base constructor real; MemoryManager stub']
OPN = ['merge', 'subtract', 'intersect']
TUS = ['util/regx/RangeToken.cpp', 'util/regx/Token.cpp']
HARNESSES = [
 # addRange x NA (+ sort/compact) alone: the insertion logic for sorted lists
 dict(name='rangetoken_add', entry='harness_rangetoken', srcs=['C11/rangetoken.cpp'], tus=TUS,
      defs={'quick': {'NA': 2, 'NB': 1, 'OPS': 0}, 'thorough': {'NA': 3, 'NB': 1, 'OPS': 0, 'SMALLCAP': 1}}, unwind={'quick': 8, 'thorough': 8},
      timeout={'quick': 600, 'thorough': 1700}, mem_gb=10),
] + [
 dict(name='rangetoken_' + OPN[op], entry='harness_rangetoken', srcs=['C11/rangetoken.cpp'], tus=TUS,
      defs={'quick': {'NA': 1, 'NB': 1, 'OPS': 1, 'OP': op}, 'thorough': {'NA': 2, 'NB': 1, 'OPS': 1, 'OP': op}}, unwind={'quick': 9 if op == 0 else 5, 'thorough': 9 if op == 0 else 7},
      timeout={'quick': 600, 'thorough': 3000}, mem_gb=10) for op in (1, 2)   # merge (op 0): CBMC reports an unwinding failure on the merge loop at every bound tried (also with the loop-nesting-aware block order) -> no verdict, not claimed
] + [
 # history: compaction by a first operation, then a second operation (2-step scripts)
 dict(name='rangetoken_2ops', entry='harness_rangetoken', srcs=['C11/rangetoken.cpp'], tus=TUS, tiers=('thorough',),
      defs={'thorough': {'NA': 1, 'NB': 1, 'OPS': 2, 'OP': 1, 'OP2': 1}}, unwind={'thorough': 7}, timeout={'thorough': 1700}, mem_gb=10),
] + ([
 # RangeToken::match (bitmap below 256 built by doCreateMap + scan above): NO VERDICT within 900 s at NA=2 (the 256-step bitmap loop is unrolled per range and
 # re-run by the adaptive unwinding) -> gated off, not claimed (DESIGN 7.6)
 dict(name='rangetoken_match', entry='harness_rangematch', srcs=['C11/rangematch.cpp'], tus=TUS,
      defs={'quick': {'NA': 1, 'MODE': 0}, 'thorough': {'NA': 2, 'MODE': 0}}, unwind={'quick': 8, 'thorough': 9}, unwind_cap=260, cbmc_flags=['--sat-solver', 'cadical'],
      timeout={'quick': 900, 'thorough': 1700}, mem_gb=12),
] if __import__('os').environ.get('VX_C11_MATCH') else []) + [
 # class negation: complementRanges of an arbitrary canonical list (thorough tier only: 10 minutes, 9 GB)
 dict(name='rangetoken_complement', entry='harness_rangematch', srcs=['C11/rangematch.cpp'], tus=TUS, tiers=('thorough',),
      defs={'thorough': {'NA': 1, 'MODE': 1}}, unwind={'thorough': 6}, cbmc_flags=['--sat-solver', 'cadical', '--slice-formula'],
      timeout={'thorough': 2400}, mem_gb=20),
]
LEVEL_TEXT = ('Bounded model checking of the character-class range algebra (the real RangeToken code): for ALL range lists within the bound (endpoints anywhere in U+0000..U+10FFFF, any order, '
              'overlapping or adjacent) and ALL characters, merge/subtract/intersect denote exactly union/difference/intersection and compaction yields a canonical list.')
LEVEL_NOTE = ('Only the set algebra of character classes is claimed. The regex parser, compiler and backtracking matcher (RegxParser, RegularExpression::compile/match, Op/Token graphs, category registry) are '
              'pointer-rich heap structures outside bounded symbolic execution here; the language-level statement of C11 is NOT claimed. Bounds: <=3+2 ranges, <=2 operations; class negation (complementRanges) for one canonical range, thorough tier. RangeToken::match (bitmap + scan) has a harness but no verdict (gated off, DESIGN 7.6).')
