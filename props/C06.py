# C06 - namespace binding
CLAIMS = {'elemstack': 'ElemStack::reset/addLevel/addPrefix/addGlobalPrefix/popTop/mapPrefixToURI/expandMap under every script of <= K operations: lookup = nearest enclosing declaration'}
ASSUMPTIONS = ['prefixes drawn from "", a, b, c, xml, xmlns; XMLStringPool::addOrFind/getId cut to an injective id function with the pool contract (getId of a never-added string = 0)', 'MemoryManager stub']
HARNESSES = [
 dict(name='elemstack', entry='harness_elemstack', srcs=['C06/elemstack.cpp', 'C06/poolstub.cpp'],
      cuts=['_ZN11xercesc_4_09ElemStack11expandStackEv'],
      cuts_everywhere=['_ZN11xercesc_4_013XMLStringPool9addOrFindEPKDs', '_ZNK11xercesc_4_013XMLStringPool5getIdEPKDs'],
      tus=['internal/ElemStack.cpp', 'util/XMLUni.cpp', 'util/XMLString.cpp', 'util/XMemory.cpp'],
      defs={'quick': {'K': 4}, 'thorough': {'K': 6}}, mem_gb=20, unwind_cap=300, unwind={'quick': 'K+2', 'thorough': 'K+2'}, timeout={'quick': 600, 'thorough': 1700}),
]
LEVEL_TEXT = ('Bounded model checking of the real prefix->URI scoping structure: for ALL operation scripts of length <= K over addLevel/addPrefix/addGlobalPrefix/popTop with symbolic prefixes and URI ids, '
              'the real mapPrefixToURI returns exactly the binding of the nearest enclosing declaration (shadowing, re-declaration, un-declaration of the default namespace, xml/xmlns fixed, unknown prefixes).')
LEVEL_NOTE = ('Bounds: K<=4 operations (quick) / 6 (thorough), depth<=K. Not covered: scanners\' two-pass start-tag processing, SAX2 prefix-mapping events, DOM lookup* algorithms, attribute expanded-name collisions '
              '(scanner dispatch / DOM tree recursion outside bounded symbolic execution). Cuts: prefix string pool lookups -> injective id function; XMLException message loading.')
