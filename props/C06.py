# C06 - namespace binding
CLAIMS = {'nsdecl_dg': 'as nsdecl for DGXMLScanner::updateNSMap(prefix, local part, normalised value)', 'nsdecl_sg': 'as nsdecl for SGXMLScanner::updateNSMap (the schema scanner has its own copy)', 'nsdecl': 'IGXMLScanner::updateNSMap + normalizeAttRawValue for every declaration name in {xmlns, xmlns:p, xmlns:xml, xmlns:xmlns} x value in {empty, 1 symbolic char, XML name, xmlns name, literal TAB} x XML 1.0/1.1: bound exactly once to the normalised value (un-declaration included), exactly the namespace-constraint errors of the Recommendation', 'elemstack': 'ElemStack::reset/addLevel/addPrefix/addGlobalPrefix/popTop/mapPrefixToURI/expandMap under every script of <= K operations: lookup = nearest enclosing declaration'}
ASSUMPTIONS = ['prefixes drawn from "", a, b, c, xml, xmlns; XMLStringPool::addOrFind/getId cut to an injective id function with the pool contract (getId of a never-added string = 0)', 'MemoryManager stub']
HARNESSES = [
 dict(name='elemstack', entry='harness_elemstack', srcs=['C06/elemstack.cpp', 'C06/poolstub.cpp'],
      cuts=['_ZN11xercesc_4_09ElemStack11expandStackEv'],
      cuts_everywhere=['_ZN11xercesc_4_013XMLStringPool9addOrFindEPKDs', '_ZNK11xercesc_4_013XMLStringPool5getIdEPKDs'],
      tus=['internal/ElemStack.cpp', 'util/XMLUni.cpp', 'util/XMLString.cpp', 'util/XMemory.cpp'],
      defs={'quick': {'K': 4}, 'thorough': {'K': 6}}, mem_gb=20, unwind_cap=300, unwind={'quick': 'K+2', 'thorough': 'K+2'}, timeout={'quick': 600, 'thorough': 1700}),
  dict(name='nsdecl', entry='harness_nsdecl', srcs=['C06/nsdecl.cpp', 'C06/nsstubs.cpp'],
      tus=['internal/IGXMLScanner2.cpp', 'framework/XMLBuffer.cpp', 'util/XMLChar.cpp', 'util/XMLString.cpp', 'util/XMLUni.cpp'],
      const_tables=['_ZN11xercesc_4_010XMLChar1_019fgCharCharsTable1_0E', '_ZN11xercesc_4_010XMLChar1_119fgCharCharsTable1_1E'],
      unwind=50, unwind_cap=60, timeout={'quick': 900, 'thorough': 1700}, mem_gb=16),
  dict(name='nsdecl_sg', entry='harness_nsdecl', srcs=['C06/nsdecl.cpp', 'C06/nsstubs.cpp'],
      tus=['internal/SGXMLScanner.cpp', 'framework/XMLBuffer.cpp', 'util/XMLChar.cpp', 'util/XMLString.cpp', 'util/XMLUni.cpp'],
      const_tables=['_ZN11xercesc_4_010XMLChar1_019fgCharCharsTable1_0E', '_ZN11xercesc_4_010XMLChar1_119fgCharCharsTable1_1E'],
      defs={'all': {'SCANNER': 'SGXMLScanner'}}, unwind=50, unwind_cap=60, timeout={'quick': 900, 'thorough': 1700}, mem_gb=16),
  dict(name='nsdecl_dg', entry='harness_nsdecl', srcs=['C06/nsdecl.cpp', 'C06/nsstubs.cpp'],
      tus=['internal/DGXMLScanner.cpp', 'framework/XMLBuffer.cpp', 'util/XMLChar.cpp', 'util/XMLString.cpp', 'util/XMLUni.cpp'],
      const_tables=['_ZN11xercesc_4_010XMLChar1_019fgCharCharsTable1_0E', '_ZN11xercesc_4_010XMLChar1_119fgCharCharsTable1_1E'],
      defs={'all': {'SCANNER': 'DGXMLScanner', 'SCANNER_DG': 1}}, unwind=50, unwind_cap=60, timeout={'quick': 900, 'thorough': 1700}, mem_gb=16),
]
LEVEL_TEXT = ('Bounded model checking of the real prefix->URI scoping structure: for ALL operation scripts of length <= K over addLevel/addPrefix/addGlobalPrefix/popTop with symbolic prefixes and URI ids, '
              'the real mapPrefixToURI returns exactly the binding of the nearest enclosing declaration (shadowing, re-declaration, un-declaration of the default namespace, xml/xmlns fixed, unknown prefixes).')
LEVEL_NOTE = ('Bounds: K<=4 operations (quick) / 6 (thorough), depth<=K. Not covered: the WF scanner\'s namespace handling, scanners\' two-pass start-tag processing, SAX2 prefix-mapping events, DOM lookup* algorithms, attribute expanded-name collisions '
              '(scanner dispatch / DOM tree recursion outside bounded symbolic execution). Cuts: prefix string pool lookups -> injective id function; XMLException message loading.')
