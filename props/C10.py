# C10 - identity constraints: value-space equality of field tuples
CLAIMS = {'cachemerge': 'ValueStoreCache::endElement as a path gate (containers cut): tuples of the ending scope are registered in / appended INTO the enclosing scope, popped map deleted once',
 'tuple': 'ICValueHasher::isDuplicateOf / equals / getHashVal + FieldValueMap with stub validators over a symbolic derivation forest: equality in the value space of the nearest common ancestor; hash consistency'}
ASSUMPTIONS = ['datatype validators are stubs (value = first character, optionally case-folded; canonical form value-determined)', 'DatatypeValidator base ctor/dtor cut', 'fixed-block memory manager']
HARNESSES = [
 dict(name='tuple', entry='harness_tuple', srcs=['C10/tuple.cpp', 'C10/dvstub.cpp'],
      tus=['validators/schema/identity/ValueStore.cpp', 'validators/schema/identity/FieldValueMap.cpp', 'util/XMLString.cpp', 'util/XMemory.cpp'],
      unwind=6, timeout={'quick': 900, 'thorough': 1700}),
 dict(name='cachemerge', entry='harness_cachemerge', srcs=['C10/cachemerge.cpp', 'C10/cachestubs.cpp'], tus=['validators/schema/identity/ValueStoreCache.cpp'],
      cuts_everywhere=['_ZN11xercesc_4_010RefStackOfINS_14RefHashTableOfINS_10ValueStoreENS_9PtrHasherEEEE5emptyEv', '_ZN11xercesc_4_010RefStackOfINS_14RefHashTableOfINS_10ValueStoreENS_9PtrHasherEEEE3popEv', '_ZN11xercesc_4_024RefHashTableOfEnumeratorINS_10ValueStoreENS_9PtrHasherEEC2EPNS_14RefHashTableOfIS1_S2_EEbPNS_13MemoryManagerE', '_ZN11xercesc_4_024RefHashTableOfEnumeratorINS_10ValueStoreENS_9PtrHasherEED2Ev', '_ZNK11xercesc_4_024RefHashTableOfEnumeratorINS_10ValueStoreENS_9PtrHasherEE15hasMoreElementsEv', '_ZN11xercesc_4_024RefHashTableOfEnumeratorINS_10ValueStoreENS_9PtrHasherEE11nextElementEv', '_ZN11xercesc_4_014RefHashTableOfINS_10ValueStoreENS_9PtrHasherEE3getEPKv', '_ZN11xercesc_4_014RefHashTableOfINS_10ValueStoreENS_9PtrHasherEE3putEPvPS1_', '_ZN11xercesc_4_014RefHashTableOfINS_10ValueStoreENS_9PtrHasherEED2Ev'], unwind=6, timeout=600),
]
LEVEL_TEXT = ('Bounded model checking of the real tuple comparison/hash code of identity constraints with the type derivation forest and the values symbolic: for ALL pairs of tuples within the bound, equality is decided in the '
              'value space of the nearest common ancestor type and equal tuples hash alike.')
LEVEL_NOTE = ('NOT claimed: XPath selector/field matching, scoping of key tables across nested elements beyond the merge step of ValueStoreCache::endElement (harness cachemerge), duplicate/keyref reporting over whole instances, real datatype validators in the comparison. '
              'Bounds: 3 validators, tuples of <= 2 fields, values of one code unit.')
