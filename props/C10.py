# C10 - identity constraints: value-space equality of field tuples
CLAIMS = {'tuple': 'ICValueHasher::isDuplicateOf / equals / getHashVal + FieldValueMap with stub validators over a symbolic derivation forest: equality in the value space of the nearest common ancestor; hash consistency'}
ASSUMPTIONS = ['datatype validators are stubs (value = first character, optionally case-folded; canonical form value-determined)', 'DatatypeValidator base ctor/dtor cut', 'fixed-block memory manager']
HARNESSES = [
 dict(name='tuple', entry='harness_tuple', srcs=['C10/tuple.cpp', 'C10/dvstub.cpp'],
      tus=['validators/schema/identity/ValueStore.cpp', 'validators/schema/identity/FieldValueMap.cpp', 'util/XMLString.cpp', 'util/XMemory.cpp'],
      unwind=6, timeout={'quick': 900, 'thorough': 1700}),
]
LEVEL_TEXT = ('Bounded model checking of the real tuple comparison/hash code of identity constraints with the type derivation forest and the values symbolic: for ALL pairs of tuples within the bound, equality is decided in the '
              'value space of the nearest common ancestor type and equal tuples hash alike.')
LEVEL_NOTE = ('NOT claimed: XPath selector/field matching, scoping of key tables across nested elements (ValueStoreCache), duplicate/keyref reporting over whole instances, real datatype validators in the comparison. '
              'Bounds: 3 validators, tuples of <= 2 fields, values of one code unit.')
