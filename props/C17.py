# C17 - concurrency: lock discipline (schedules themselves are outside this technique)
CLAIMS = {'doctype': 'DOMDocumentTypeImpl constructors / setPublicId / setSystemId / setInternalSubset on an owner-less doctype: every access to the shared hidden document (string arena, name pool, node allocator) under its mutex; released on exit; never re-acquired', 'syncpool': 'XMLSynchronizedStringPool (real) + XMLMutexLock (real): every access to the shared table happens with the pool mutex held; never re-acquired; released on every exit; ids equal the unsynchronised semantics'}
ASSUMPTIONS = ['platform mutex primitives cut to a recorder', 'base XMLStringPool operations cut to stubs with arbitrary but consistent answers', 'lock discipline is a necessary condition for race freedom, not a proof of it']
POOL = ['_ZN11xercesc_4_013XMLStringPool9addOrFindEPKDs', '_ZNK11xercesc_4_013XMLStringPool5getIdEPKDs', '_ZNK11xercesc_4_013XMLStringPool6existsEPKDs',
        '_ZNK11xercesc_4_013XMLStringPool13getValueForIdEj']
HARNESSES = [
 dict(name='syncpool', entry='harness_syncpool', srcs=['C17/syncpool.cpp', 'C17/basepool.cpp'], tus=['util/SynchronizedStringPool.cpp', 'util/Mutexes.cpp'],
      cuts_everywhere=POOL, unwind=4, timeout=300),
 dict(name='doctype', entry='harness_doctype', srcs=['C17/doctype.cpp', 'C17/doctypestubs.cpp'],
      tus=['dom/impl/DOMDocumentTypeImpl.cpp', 'dom/impl/DOMNodeImpl.cpp', 'dom/impl/DOMParentNode.cpp', 'dom/impl/DOMChildNode.cpp', 'dom/impl/DOMNodeListImpl.cpp', 'util/Mutexes.cpp', 'util/XMLString.cpp'],
      cuts_everywhere=['_ZN11xercesc_4_015DOMDocumentImpl15getPooledStringEPKDs', '_ZnwmPN11xercesc_4_011DOMDocumentE'], unwind=6, timeout=600, mem_gb=16),
]
LEVEL_TEXT = ('Bounded (loop-free) symbolic execution of the real synchronised-pool and scope-lock code with the mutex primitives recorded: on EVERY path and for every combination of outcomes of the '
              'underlying table operations the shared table is touched only under its mutex, the mutex is not re-acquired, and it is released on every normal and exceptional exit. '
              'This is lockset-style discipline, which holds for any number of threads; it is not an exploration of schedules.')
LEVEL_NOTE = ('NOT claimed: absence of data races elsewhere, deadlock freedom beyond lock nesting, equality of results across threads, lazy-initialisation races (RangeTokenMap, DOM registries, ICU transcoder): real '
              'thread schedules cannot be explored by this technique on this code. Sites covered are listed in evidence.')
