# C07 - DTD validation: content-model interpreters (one/two-leaf models and mixed content)
CLAIMS = {'simplecm': 'SimpleContentModel::validateContent for every operator x DTD/schema naming x every child sequence <= N: accepted iff in the regular language',
          'mixedcm': 'MixedContentModel::validateContent (unordered, as both construction sites use it): accepted iff every element child is declared; failing index = first undeclared child'}
ASSUMPTIONS = ['QName objects are built field by field (raw name = local part, no prefix); names over {a,b,c} x URI ids {2,3,4}', 'XMLString::equals real']
TUS = ['framework/XMLElementDecl.cpp', 'validators/common/SimpleContentModel.cpp', 'validators/common/MixedContentModel.cpp', 'util/XMLString.cpp']
HARNESSES = [
 dict(name='simplecm', entry='harness_simplecm', srcs=['C07/simplecm.cpp'], tus=TUS, defs={'quick': {'N': 3}, 'thorough': {'N': 5}}, unwind='N+3', timeout={'quick': 600, 'thorough': 1700}),
 dict(name='mixedcm', entry='harness_mixedcm', srcs=['C07/simplecm.cpp'], tus=TUS, defs={'quick': {'N': 2, 'M': 3}, 'thorough': {'N': 3, 'M': 3}}, unwind='N+M+2', timeout={'quick': 600, 'thorough': 1700}),
]
LEVEL_TEXT = ('Bounded model checking of the real content-model interpreters selected by DTDElementDecl::makeContentModel for one/two-leaf and mixed models: for ALL operators, declared names and child '
              'sequences within the bound, acceptance equals membership in the model\'s regular language.')
LEVEL_NOTE = ('NOT claimed: DFA construction (buildDFA: followpos over heap sets), the DFA interpreter (see C08 for the table interpreter), attribute checks, ID/IDREF, standalone rules, DTD scanning, whole-document verdicts. '
              'Bounds: N<=3 children (quick) / 5, names over a 3x3 alphabet.')
