#!/bin/sh
# Offline setup: nothing to download or compile ahead of time; every check
# regenerates its encoding from /repo's current sources.  Only sanity-check tools.
set -e
for t in clang++-14 llvm-link-14 opt-14 cbmc python3 gcc; do command -v $t >/dev/null || { echo "missing $t"; exit 1; }; done
mkdir -p /verif/evidence
exit 0
