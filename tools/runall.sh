#!/bin/bash
# run the quick (or given) tier of every claimed property sequentially; summary in /tmp/runall_$T.log
T=${1:-quick}; shift; EXTRA="$@"      # e.g. tools/runall.sh thorough --no-evidence
cd /verif
: > /tmp/runall_$T.log
for p in $(python3 -c "import json; print(' '.join(c['property_id'] for c in json.load(open('MANIFEST.json'))['checks']))"); do
  s=$(date +%s); timeout 9000 ./vcheck $p --tier $T $EXTRA > /tmp/runall_$p.log 2>&1; rc=$?; e=$(date +%s)
  echo "$p rc=$rc $((e-s))s $(tail -n 1 /tmp/runall_$p.log | cut -c1-150)" >> /tmp/runall_$T.log
done
echo ALLDONE >> /tmp/runall_$T.log
