#!/bin/bash
# run the quick (or given) tier of every claimed property sequentially; summary in /tmp/runall.log
T=${1:-quick}
cd /verif
: > /tmp/runall.log
for p in $(python3 -c "import json; print(' '.join(c['property_id'] for c in json.load(open('MANIFEST.json'))['checks']))"); do
  s=$(date +%s); timeout 5000 ./vcheck $p --tier $T > /tmp/runall_$p.log 2>&1; rc=$?; e=$(date +%s)
  echo "$p rc=$rc $((e-s))s $(tail -n 1 /tmp/runall_$p.log | cut -c1-150)" >> /tmp/runall.log
done
echo ALLDONE >> /tmp/runall.log
