#!/usr/bin/env python3
"""Regenerate /verif/MANIFEST.json from props/*.py (one check per property that has harnesses)."""
import os, sys, json, importlib.util, subprocess
V = os.path.dirname(os.path.dirname(os.path.abspath(__file__)))
ids = [json.loads(l)['id'] for l in open(os.path.join(V, 'properties.jsonl'))]
NA = json.load(open(os.path.join(V, 'tools', 'not_applicable.json')))
checks = []; na = []; served = []
for i in ids:
    f = os.path.join(V, 'props', i + '.py')
    if not os.path.exists(f):
        na.append({'property_id': i, 'reason': NA.get(i, 'no harness built yet for this property with the solver-based technique (see DESIGN.md section 2/3)')}); continue
    spec = importlib.util.spec_from_file_location('p', f); m = importlib.util.module_from_spec(spec); spec.loader.exec_module(m)
    if not getattr(m, 'READY', True):
        na.append({'property_id': i, 'reason': getattr(m, 'NOT_READY_REASON', 'harnesses exist (props/%s.py) but do not yet reach a verdict within the budget on the unchanged tree; not claimed until they do' % i)}); continue
    served.append(i)
    checks.append({
        'property_id': i,
        'quick_cmd': './vcheck %s --tier quick' % i,
        'thorough_cmd': './vcheck %s --tier thorough' % i,
        'evidence_file': '/verif/evidence/%s.json' % i,
        'replay_cmd_template': './vcheck --replay {path}',
        'engine': 'vcheck',
        'level_claimed': {'category': 'model_checking', 'text': m.LEVEL_TEXT, 'design_ref': 'DESIGN.md section 2, ' + i},
        'level_note': m.LEVEL_NOTE,
        'technique': getattr(m, 'TECHNIQUE', 'bounded symbolic execution of the real code: clang-14 LLVM IR of /repo sources -> C (ir2c) -> CBMC 6.11 SAT, unwinding assertions, native replay of counterexamples'),
    })
hooks = subprocess.run(['git', '-C', '/repo', 'log', '--format=%h %s', '--grep=^hook:'], stdout=subprocess.PIPE, text=True).stdout.strip().split('\n')
man = {
 'version': 1,
 'setup_cmd': './setup.sh',
 'hooks': {'guard': 'XERCES_VERIF_HOOKS',
           'enable': 'checks lower /repo sources with clang++-14 -DXERCES_VERIF_HOOKS=1 (reader harnesses add -DXERCES_VERIF_CHARBUF=<n> -DXERCES_VERIF_RAWBUF=<n>, the formatter harness -DXERCES_VERIF_TMPBUF=<n>); the library build used by the test suite never defines the guard',
           'baseline_off_cmd': 'cmake --build /repo/_build -j16 && ctest --test-dir /repo/_build -j8 --timeout 900',
           'source_commits': [h.split()[0] for h in hooks if h], 'add_only': True},
 'engines': [{'name': 'vcheck', 'path': '/verif/vcheck', 'serves_properties': served,
              'kind_free_text': 'solver-based checking of the real code: clang-14 lowers the anchored /repo sources to LLVM IR, engine/ir2c.py translates the closure of each harness to C, CBMC 6.11 decides every assertion for all symbolic inputs within stated bounds (unwinding assertions on), counterexamples are replayed natively on the same IR'}],
 'checks': checks,
 'not_applicable': na,
 'notes': 'Per-harness bounds, encoded functions, cuts, stubs, solver time and RSS are written to evidence/<id>.json by every run. Known findings: known_findings.json.',
}
json.dump(man, open(os.path.join(V, 'MANIFEST.json'), 'w'), indent=1)
print('checks:', served, 'n/a:', [x['property_id'] for x in na])
