#!/usr/bin/env python3
"""tools/externs.py [Cxx ...]: build every harness (no solving) and list data symbols that are declared but not defined in the closure"""
import sys, os, importlib.util, tempfile, shutil
sys.path.insert(0, '/verif/engine')
import pipeline as P
props = sys.argv[1:] or ['C%02d' % i for i in range(1, 21)]
for pid in props:
    f = '/verif/props/%s.py' % pid
    if not os.path.exists(f): continue
    sp = importlib.util.spec_from_file_location(pid, f); m = importlib.util.module_from_spec(sp); sp.loader.exec_module(m)
    rd = tempfile.mkdtemp(prefix='vx_ext_')
    for h in m.HARNESSES:
        try:
            b = P.build(h, 'quick', os.path.join(rd, h['name']), {})
            print(pid, h['name'], [g for g in b.info['extern_globals'] if g != '__dso_handle'], flush=True)
        except Exception as e:
            print(pid, h['name'], 'BUILD-FAIL', str(e)[:200], flush=True)
    shutil.rmtree(rd, ignore_errors=True)
