#!/bin/bash
# tools/seedcheck.sh <prop> <k> [vcheck args]: confirm a seeded change (from /tmp/seed_<prop>/m<k>) in its scratch worktree, then run the
# property's check against the patched tree (VX_REPO = the scratch worktree, /repo itself is not touched) and file it under /verif/seeded/.
P=$1; K=$2; shift 2
CHK=${CHK:-$P}     # CHK=<other property>: run another property's check against this seed (seeds that land in a neighbouring property's code)
WT=/tmp/wt_$P; S=/tmp/seed_$P/m$K; OUT=/verif/seeded/${P}_m$K; LOG=/tmp/seedcheck_${P}_m$K.log
mkdir -p $OUT; exec > $LOG 2>&1
set -x
git -C $WT checkout -- . ; git -C $WT apply $S/patch.diff || { echo PATCH-FAILED; exit 3; }
cmake --build $WT/_build -j6 > /dev/null || { echo BUILD-FAILED; exit 3; }
ctest --test-dir $WT/_build -j6 --timeout 900 2>&1 | tail -3 > $OUT/ctest_with_patch.txt; cat $OUT/ctest_with_patch.txt
g++ -std=gnu++17 -DHAVE_CONFIG_H=1 -I$WT/src -I$WT/_build/src -I$WT/_build $S/demo.cpp -o /tmp/demo_${P}_$K -L$WT/_build/src -l:libxerces-c-4.0.so -Wl,-rpath,$WT/_build/src
(cd /tmp && timeout 300 /tmp/demo_${P}_$K > /tmp/demo_${P}_$K.out 2>&1); DEMO_PATCHED=$?
cd /verif && VX_REPO=$WT timeout 3000 ./vcheck $CHK --no-evidence "$@" > $OUT/vcheck_with_patch.txt 2>&1; VC=$?
git -C $WT checkout -- . ; cmake --build $WT/_build -j6 > /dev/null
(cd /tmp && timeout 300 /tmp/demo_${P}_$K > /dev/null 2>&1); DEMO_CLEAN=$?
cp $S/patch.diff $S/demo.cpp $OUT/; cp $S/README.txt $OUT/agent_README.txt
python3 - <<EOF
import json,re
ct=open('$OUT/ctest_with_patch.txt').read()
vc=open('$OUT/vcheck_with_patch.txt').read()
json.dump({'property':'$P','seed':'m$K','ctest_with_patch':ct.strip().split('\n')[0] if ct.strip() else '', 'tests_pass_with_patch': '100% tests passed' in ct,
 'demo_exit_with_patch':$DEMO_PATCHED,'demo_exit_clean':$DEMO_CLEAN,'vcheck_exit_with_patch':$VC,
 'vcheck_violations':[l for l in vc.split('\n') if l.startswith('VIOLATION')][:6],'vcheck_inconclusive':[l[:300] for l in vc.split('\n') if l.startswith('INCONCLUSIVE')][:4],
 'detected': $VC==1, 'checked_with':'$CHK', 'ran':'tools/seedcheck.sh $P $K $*'}, open('$OUT/meta.json','w'), indent=1)
EOF
rm -f /tmp/demo_${P}_$K /tmp/demo_${P}_$K.out
echo DONE vcheck=$VC demo_patched=$DEMO_PATCHED demo_clean=$DEMO_CLEAN
