#!/usr/bin/env python3
"""Build / solve / validate / replay pipeline of /verif (DESIGN.md section 1).

For one harness:  real sources --clang-14--> unoptimised IR --cut--> link --internalize/dce-->
clang -O1 (same pipeline as a real -O1 compile, no vectoriser/unroller) --> ir2c --> CBMC.
Witness traces returned by CBMC are replayed on two native builds (clang build of the IR,
gcc build of the translated C) to validate the translator on every run; counterexamples are
replayed on the clang build with ASan/UBSan before they are reported.
"""
import os, sys, re, json, subprocess, hashlib, time, random, resource, shutil, threading

VERIF = os.path.dirname(os.path.dirname(os.path.abspath(__file__)))
REPO = os.environ.get('VX_REPO', '/repo')
ENG = os.path.join(VERIF, 'engine')
sys.path.insert(0, ENG)
import ir2c, irtool

CLANG = 'clang++-14'
BASE_FLAGS = ['-std=gnu++17', '-DHAVE_CONFIG_H=1', '-D_FILE_OFFSET_BITS=64', '-D_THREAD_SAFE=1', '-DNDEBUG', '-DXERCES_VERIF_HOOKS=1',
              '-I%s/_build' % REPO, '-I%s/src' % REPO, '-I%s/_build/src' % REPO, '-I%s/harness/include' % VERIF,
              '-fno-builtin', '-fstrict-aliasing', '-w']
LOWER = ['-O1', '-fno-pic', '-Xclang', '-disable-llvm-passes', '-S', '-emit-llvm']
OPT_IR = ['-O1', '-fno-pic', '-mllvm', '-simplifycfg-sink-common=false', '-fno-vectorize', '-fno-slp-vectorize', '-fno-unroll-loops', '-fno-builtin', '-S', '-emit-llvm', '-w']

CBMC_BASE = ['--unwinding-assertions', '--bounds-check', '--pointer-check', '--div-by-zero-check', '--signed-overflow-check',
             '--undefined-shift-check', '--drop-unused-functions', '--trace', '--json-ui', '--no-standard-checks', '--verbosity', '8']

class Inconclusive(Exception): pass

def run(cmd, **kw):
    r = subprocess.run(cmd, stdout=subprocess.PIPE, stderr=subprocess.PIPE, text=True, **kw)
    return r

def must(cmd, what, **kw):
    r = run(cmd, **kw)
    if r.returncode != 0:
        raise Inconclusive('%s failed: %s\n%s' % (what, ' '.join(cmd)[:400], (r.stderr or r.stdout)[-3000:]))
    return r

_lower_lock = threading.Lock()
_lower_cache = {}

def lower(src, defs, outdir, is_lib):
    """clang: C++ source -> unoptimised LLVM IR text (cached per run)"""
    flags = BASE_FLAGS + ['-D%s=%s' % kv for kv in sorted(defs.items())]
    if is_lib: flags = flags + ['-DXERCES_BUILDING_LIBRARY=1', '-Dxerces_c_EXPORTS']
    key = hashlib.sha1(('%s|%s' % (src, flags)).encode()).hexdigest()[:16]
    out = os.path.join(outdir, 'tu_%s_%s.ll' % (os.path.basename(src).replace('.', '_'), key))
    with _lower_lock:
        ev = _lower_cache.get(out)
        if ev is None:
            ev = _lower_cache[out] = threading.Event(); owner = True
        else: owner = False
    if owner:
        try:
            must([CLANG] + flags + LOWER + [src, '-o', out], 'lowering ' + src)
        finally:
            ev.set()
    else:
        ev.wait()
        if not os.path.exists(out): raise Inconclusive('lowering failed (other thread): ' + src)
    return out

def eval_param(v, defs):
    if isinstance(v, str): return int(eval(v, {}, dict(defs)))
    return v

class Built:
    pass

def build(h, tier, wd, variant_defs=None):
    """returns Built with paths and translator info"""
    os.makedirs(wd, exist_ok=True)
    defs = dict(h.get('defs', {}).get('all', {}))
    defs.update(h.get('defs', {}).get(tier, {}))
    defs.update(variant_defs or {})
    b = Built(); b.defs = defs; b.wd = wd; b.h = h
    tus = []
    shared = os.path.join(os.path.dirname(wd), '_tu'); os.makedirs(shared, exist_ok=True)
    libdefs = {k: v for k, v in defs.items() if k.startswith('XERCES_VERIF_')}
    for s in h['srcs']:
        tus.append((lower(os.path.join(VERIF, 'harness', s), defs, wd, False), False))
    for s in h.get('tus', []):
        tus.append((lower(os.path.join(REPO, 'src', 'xercesc', s), libdefs, shared, True), True))
    cuts = h.get('cuts', []); cut_all = h.get('cuts_everywhere', [])
    cut_hit = set(); texts = []
    for path, is_lib in tus:
        t = open(path).read()
        rep = []
        if cut_all:
            # inline (linkonce_odr) definitions are removed from every TU, except where the replacement is defined via asm label
            t, hit = irtool.cut_linkonce(t, cut_all, rep) if hasattr(irtool, 'cut_linkonce') else irtool.cut(t, cut_all, rep)
            cut_hit |= hit
        if is_lib and cuts:
            t, hit = irtool.cut(t, cuts, rep); cut_hit |= hit
        p2 = os.path.join(wd, 'c_' + os.path.basename(path))
        open(p2, 'w').write(t); texts.append(p2)
    missing = [c for c in list(cuts) + list(cut_all) if ('@' + c if not c.startswith('@') else c) not in cut_hit]
    if missing: raise Inconclusive('cut targets not found in any TU (renamed or signature changed?): %s' % missing)
    b.cuts = sorted(cuts) + sorted(cut_all)
    linked = os.path.join(wd, 'linked.ll')
    must(['llvm-link-14', '-S'] + texts + ['-o', linked], 'llvm-link')
    entry = h['entry']
    dce = os.path.join(wd, 'dce.ll')
    must(['opt-14', '-S', '-passes=internalize,globaldce', '-internalize-public-api-list=' + entry, linked, '-o', dce], 'internalize')
    closure = os.path.join(wd, 'closure.ll')
    must([CLANG, '-x', 'ir', dce] + OPT_IR + ['-o', closure], 'clang -O1 on closure')
    b.closure = closure
    text = open(closure).read()
    opts = {'const_tables': h.get('const_tables', []), 'extern_ok': h.get('extern_ok', [])}
    try:
        c, info = ir2c.translate(text, opts)
    except Exception as e:
        raise Inconclusive('ir2c: %s' % e)
    b.info = info
    b.cfile = os.path.join(wd, 'closure.c')
    open(b.cfile, 'w').write(c)
    shutil.copy(os.path.join(ENG, 'cxxrt.h'), wd)
    b.ir_lines = text.count('\n')
    return b

ACTIVE = set()      # process groups of running solver processes (killed when the driver is terminated)
def kill_active(*_):
    import signal
    for pid in list(ACTIVE):
        try: os.killpg(pid, signal.SIGKILL)
        except Exception: pass
    os._exit(143)

def limit_mem(gb):
    def f():
        resource.setrlimit(resource.RLIMIT_AS, (int(gb * 2**30), int(gb * 2**30)))
    return f

def cbmc_once(b, tier, extra_unwindset):
    h = b.h; defs = b.defs
    unwind = eval_param(h.get('unwind', {}).get(tier, h.get('unwind', {}).get('all', 8)) if isinstance(h.get('unwind'), dict) else h.get('unwind', 8), defs)
    cmd = ['cbmc', b.cfile, '--function', h['entry'], '--unwind', str(unwind)] + CBMC_BASE
    cmd += ['--object-bits', str(h.get('object_bits', 12))]
    us = dict((k, eval_param(v, defs)) for k, v in (h.get('unwindset') or {}).items())
    us.update(extra_unwindset)
    for k, v in us.items():
        cmd += ['--unwindset', '%s:%d' % (k, v)]
    b.unwindset = us
    cmd += h.get('cbmc_flags', [])
    tl = h.get('timeout', {}).get(tier, 600) if isinstance(h.get('timeout'), dict) else h.get('timeout', 600)
    mem = h.get('mem_gb', 12)
    b.unwind = unwind; b.cbmc_cmd = ' '.join(cmd)
    t0 = time.time()
    outp = os.path.join(b.wd, 'cbmc.json')
    with open(outp, 'w') as fo:
        import signal
        pr = subprocess.Popen(['/usr/bin/time', '-f', 'RSSKB=%M', '-o', os.path.join(b.wd, 'rss.txt')] + cmd, stdout=fo, stderr=subprocess.PIPE, text=True,
                              preexec_fn=limit_mem(mem), cwd=b.wd, start_new_session=True)
        ACTIVE.add(pr.pid)
        try:
            _, err = pr.communicate(timeout=tl)
        except subprocess.TimeoutExpired:
            try: os.killpg(pr.pid, signal.SIGKILL)      # the solver is a grandchild (behind /usr/bin/time): kill the whole group
            except Exception: pass
            pr.wait()
            ACTIVE.discard(pr.pid)
            raise Inconclusive('cbmc timeout after %ds (no verdict): %s' % (tl, h['name']))
        ACTIVE.discard(pr.pid)
        class R: pass
        r = R(); r.returncode = pr.returncode; r.stderr = err or ''
    b.wall = time.time() - t0
    try: b.rss_kb = int(re.search(r'RSSKB=(\d+)', open(os.path.join(b.wd, 'rss.txt')).read()).group(1))
    except Exception: b.rss_kb = 0
    try:
        msgs = json.load(open(outp))
    except Exception as e:
        raise Inconclusive('cbmc output unreadable (rc=%s, likely out of memory): %s %s' % (r.returncode, e, r.stderr[-500:]))
    results = None; solver_s = 0.0; errs = []
    for m in msgs:
        if 'result' in m: results = m['result']
        if m.get('messageType') == 'ERROR': errs.append(m.get('messageText', ''))
        mt = m.get('messageText', '')
        mm = re.search(r'Runtime (?:decision procedure|Solver): ([\d.]+)s', mt)
        if mm: solver_s += float(mm.group(1))
    if any('out of memory' in e for e in errs):
        raise Inconclusive('cbmc: solver ran out of memory (limit %s GB) - no verdict: %s' % (mem, h['name']))
    if results is None:
        raise Inconclusive('cbmc produced no result (rc=%s): %s' % (r.returncode, '; '.join(errs)[-1500:] or r.stderr[-500:]))
    b.solver_s = solver_s
    return results


def cbmc(b, tier):
    """run CBMC; loops whose unwinding assertion fails get their own larger bound (up to unwind_cap) and the query is repeated:
    loops with a concrete trip count (table/bucket initialisation, fixed-size copies) then unwind exactly, data-dependent loops keep the harness bound"""
    h = b.h
    cap = h.get('unwind_cap', 130); extra = {}
    for attempt in range(9):
        results = cbmc_once(b, tier, extra)
        bad = [r for r in results if r.get('status') == 'FAILURE' and '.unwind.' in r.get('property', '')]
        if not bad or h.get('unwind_is_violation') or h.get('no_unwind_adapt'): return results
        grew = False
        for r in bad:
            lid = r['property'].replace('.unwind.', '.')
            cur = extra.get(lid, b.unwind)
            if cur >= cap: continue
            extra[lid] = min(cap, max(cur * 2, cur + 2) if h.get('unwind_gentle') else max(cur * 4, 34)); grew = True
        if not grew: return results
    return results

_nd_maps = {}
def nondet_sites(cfile):
    """line number -> variable assigned from a nondet_*() call in the generated C"""
    if cfile not in _nd_maps:
        mp = {}
        for i, ln in enumerate(open(cfile), 1):
            m = re.match(r'\s*(\w+) = nondet_\w+\(\);', ln)
            if m: mp[str(i)] = m.group(1)
        _nd_maps[cfile] = mp
    return _nd_maps[cfile]

def trace_vector(trace, cfile):
    """values returned by the nondet_* calls, in execution order"""
    mp = nondet_sites(cfile); base = os.path.basename(cfile)
    vec = []
    for st in trace:
        if st.get('stepType') != 'assignment' or st.get('hidden'): continue
        sl = st.get('sourceLocation') or {}
        var = mp.get(sl.get('line'))
        if var is None or st.get('lhs') != var or os.path.basename(sl.get('file', base)) != base: continue
        v = st.get('value', {})
        if 'binary' in v: vec.append(int(v['binary'], 2))
        else: vec.append(int(re.sub(r'[^0-9-]', '', v.get('data', '0')) or 0))
    return vec

def native_build(b, asan=False):
    """clang build of the IR closure and gcc build of the translated C (both with native_rt.c)"""
    wd = b.wd; entry = b.h['entry']
    ir_bin = os.path.join(wd, 'native_ir' + ('_asan' if asan else ''))
    src = b.closure
    san = []
    if asan:
        t = irtool.add_fn_attr(open(b.closure).read(), 'sanitize_address')
        src = os.path.join(wd, 'closure_asan.ll'); open(src, 'w').write(t)
        san = ['-fsanitize=address,undefined', '-fno-sanitize-recover=all']
    stubs = os.path.join(wd, 'native_stubs.c')
    with open(stubs, 'w') as f:
        f.write('#include <stdio.h>\n#include <stdlib.h>\n')
        for n in b.info['autostubs']:
            if re.fullmatch(r'[A-Za-z_]\w*', n): f.write('void %s(void) { printf("I|unmodelled function reached: %s|0\\n"); fflush(stdout); _Exit(97); }\n' % (n, n))
        for n in b.info['extern_globals']:
            if n == '__dso_handle': continue
            if re.fullmatch(r'[A-Za-z_]\w*', n): f.write('char %s[4096] __attribute__((aligned(16)));\n' % n)
    must([CLANG, '-O0', '-w', '-DVX_NATIVE_IR', '-DVX_ENTRY=' + entry, src, '-x', 'c', os.path.join(ENG, 'native_rt.c'), stubs, '-o', ir_bin] + san, 'native build of IR closure')
    c_bin = None
    if not asan:
        c_bin = os.path.join(wd, 'native_c')
        must(['gcc', '-O1', '-w', '-fno-strict-aliasing', '-fwrapv', '-DVX_NATIVE', '-DVX_ENTRY=' + entry, '-I', wd, b.cfile, os.path.join(ENG, 'native_rt.c'), '-lm', '-o', c_bin],
             'gcc build of translated C')
    return ir_bin, c_bin

def run_native(binary, vec, wd, tag):
    vf = os.path.join(wd, 'vec_%s.txt' % tag)
    open(vf, 'w').write('\n'.join(str(v) for v in vec) + '\n')
    env = dict(os.environ, VX_VEC=vf, ASAN_OPTIONS='detect_leaks=0:abort_on_error=0:exitcode=99', UBSAN_OPTIONS='halt_on_error=1:exitcode=98')
    try:
        r = subprocess.run([binary], stdout=subprocess.PIPE, stderr=subprocess.PIPE, text=True, env=env, timeout=20)
        return r.returncode, r.stdout, r.stderr
    except subprocess.TimeoutExpired:
        return -999, '', 'timeout'

def random_vectors(seed, n, length=48):
    rnd = random.Random(seed)
    special = [0, 1, 2, 3, 4, 5, 7, 8, 0x7f, 0x80, 0xc0, 0xe0, 0xed, 0xf0, 0xf4, 0xff, 0xd800, 0xdbff, 0xdc00, 0xdfff, 0xfffe, 0xffff, 0x10000, 0x10ffff, 0xffffffff]
    out = []
    for i in range(n):
        v = []
        for j in range(length):
            r = rnd.random()
            if r < 0.45: v.append(rnd.randrange(0, 9))
            elif r < 0.7: v.append(rnd.randrange(0, 256))
            elif r < 0.9: v.append(rnd.choice(special))
            else: v.append(rnd.getrandbits(64))
        out.append(v)
    return out

def log_of(stdout):
    return [l for l in stdout.split('\n') if l.startswith(('A|', 'END|'))]

def validate(b, vectors, bins):
    """same vectors through clang(IR) and gcc(translated C): every logged value must agree.
    A vector on which the code under test executes undefined behaviour (confirmed by the ASan/UBSan build of the IR, or a crash)
    is not a translation difference: it is skipped here and left to the solver's own checks."""
    ir_bin, c_bin = bins
    n = 0; b.ub_vectors = 0; asan_bin = None
    for i, vec in enumerate(vectors):
        rc1, o1, e1 = run_native(ir_bin, vec, b.wd, 'v%d' % i)
        rc2, o2, e2 = run_native(c_bin, vec, b.wd, 'v%d' % i)
        l1, l2 = log_of(o1), log_of(o2)
        if l1 == l2 and rc1 == rc2:
            n += 1; continue
        if asan_bin is None: asan_bin, _ = native_build(b, asan=True)
        rc3, o3, e3 = run_native(asan_bin, vec, b.wd, 'v%d' % i)
        if rc3 in (98, 99) or rc3 < 0 or rc1 < 0 or rc2 < 0:   # sanitizer report or a crash in either build: UB in the code under test on this vector
            b.ub_vectors += 1; continue
        d = next((k for k in range(min(len(l1), len(l2))) if l1[k] != l2[k]), min(len(l1), len(l2)))
        raise Inconclusive('translator validation FAILED on vector %d of %s: clang(IR) rc=%s vs gcc(C) rc=%s; first difference at log line %d: %r vs %r; internal: %s'
                           % (i, b.h['name'], rc1, rc2, d, l1[d:d+1], l2[d:d+1], [l for l in o2.split('\n') if l.startswith('I|')][:3]))
    return n

def classify(results):
    """split CBMC property results"""
    out = {'witness_ok': [], 'witness_vacuous': [], 'internal': [], 'unwind': [], 'fail': [], 'unknown': [], 'ok': 0, 'total': 0}
    for r in results:
        d = r.get('description', ''); st = r.get('status'); out['total'] += 1
        if d.startswith('WITNESS:'):
            (out['witness_ok'] if st == 'FAILURE' else out['witness_vacuous']).append(r)
        elif st == 'SUCCESS':
            out['ok'] += 1
        elif st != 'FAILURE':
            out['unknown'].append(r)
        elif d.startswith('VX-INTERNAL:'):
            out['internal'].append(r)
        elif 'unwinding assertion' in d or r.get('property', '').find('.unwind.') >= 0:
            out['unwind'].append(r)
        else:
            out['fail'].append(r)
    return out
