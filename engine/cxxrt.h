/* Runtime model shared by every translated closure (trusted base, DESIGN.md 1.3).
 * Included at the top of the generated C; the runtime function bodies themselves are
 * emitted by ir2c.py with the parameter types of the IR declarations. */
#ifndef VX_CXXRT_H
#define VX_CXXRT_H
#include <stdint.h>
#include <stddef.h>
#include <string.h>
#include <stdlib.h>
#include <math.h>
#ifdef VX_NATIVE
void vx_native_assert(int c, const char* d);
void vx_native_iassert(int c, const char* d);
void vx_native_assume(int c);
#define __CPROVER_assert(c, d) vx_native_assert(!!(c), d)
#define __CPROVER_assume(c) vx_native_assume(!!(c))
#define __VX_ASSERT(c, d) vx_native_iassert(!!(c), d)
#else
void __CPROVER_assume(_Bool);
void __CPROVER_assert(_Bool, const char*);
#define __VX_ASSERT(c, d) __CPROVER_assert(c, "VX-INTERNAL: " d)
#endif
/* relational pointer comparison: inside one object compare (signed) offsets, so that a pointer one-before / one-past the object
 * orders as on the hardware without CBMC's pointer-relation check firing on it; across objects compare the integer encodings */
#ifdef VX_NATIVE
#define __VX_PCMP(a, op, b) ((uintptr_t)(a) op (uintptr_t)(b))
#else
#define __VX_PCMP(a, op, b) (__CPROVER_POINTER_OBJECT((const void*)(a)) == __CPROVER_POINTER_OBJECT((const void*)(b)) \
   ? ((__CPROVER_ssize_t)__CPROVER_POINTER_OFFSET((const void*)(a)) op (__CPROVER_ssize_t)__CPROVER_POINTER_OFFSET((const void*)(b))) \
   : ((uintptr_t)(a) op (uintptr_t)(b)))
#endif
/* memcpy/memmove/memset with a length that is not a compile-time constant: CBMC's library model turns them into operations on byte arrays of
 * symbolic size over the whole enclosing object; an explicit byte loop (bounded by --unwind, with unwinding assertion) stays element-wise */
#ifdef VX_NATIVE
#define __vx_memcpy memcpy
#define __vx_memmove memmove
#define __vx_memset memset
#else
static inline void __vx_memcpy(void* d, const void* s, uint64_t n) { for (uint64_t i = 0; i < n; i++) ((uint8_t*)d)[i] = ((const uint8_t*)s)[i]; }
static inline void __vx_memmove(void* d, const void* s, uint64_t n) {
  if ((uintptr_t)d <= (uintptr_t)s || !__CPROVER_same_object(d, s)) { for (uint64_t i = 0; i < n; i++) ((uint8_t*)d)[i] = ((const uint8_t*)s)[i]; }
  else { for (uint64_t i = n; i > 0; i--) ((uint8_t*)d)[i - 1] = ((const uint8_t*)s)[i - 1]; } }
static inline void __vx_memset(void* d, int c, uint64_t n) { for (uint64_t i = 0; i < n; i++) ((uint8_t*)d)[i] = (uint8_t)c; }
#endif
/* exception state: one exception in flight, a small stack of caught ones */
static int __vx_pending;
static void* __vx_exc_obj; static void* __vx_exc_type; static void* __vx_exc_dtor;
#define VX_CAUGHT_MAX 4
static void* __vx_caught_obj[VX_CAUGHT_MAX]; static void* __vx_caught_type[VX_CAUGHT_MAX];
static void* __vx_caught_dtor[VX_CAUGHT_MAX]; static int __vx_caught_rethrown[VX_CAUGHT_MAX];
static int __vx_caught_n;
#define VX_EXC_SLOTS 3
#define VX_EXC_SIZE 128
static uint64_t __vx_exc_store[VX_EXC_SLOTS][VX_EXC_SIZE / 8]; static int __vx_exc_next;
static int __vx_exc_alive;   /* exception objects allocated and not yet freed (leak ledger for C18) */
typedef void __vx_dtor_fn(void*);
static void __vx_run_exc_dtor(void* d, void* obj);
static inline double __vx_bits2double(uint64_t b) { double d; memcpy(&d, &b, 8); return d; }
static inline uint64_t __vx_double2bits(double d) { uint64_t b; memcpy(&b, &d, 8); return b; }
static inline float __vx_bits2float(uint32_t b) { float d; memcpy(&d, &b, 4); return d; }
static inline uint32_t __vx_float2bits(float d) { uint32_t b; memcpy(&b, &d, 4); return b; }
static inline int __vx_ctlz32(uint32_t x) { int n = 0; if (!x) return 32; while (!(x & 0x80000000u)) { x <<= 1; n++; } return n; }
static inline int __vx_ctlz64(uint64_t x) { int n = 0; if (!x) return 64; while (!(x >> 63)) { x <<= 1; n++; } return n; }
static inline int __vx_cttz32(uint32_t x) { int n = 0; if (!x) return 32; while (!(x & 1)) { x >>= 1; n++; } return n; }
static inline int __vx_cttz64(uint64_t x) { int n = 0; if (!x) return 64; while (!(x & 1)) { x >>= 1; n++; } return n; }
static inline int __vx_ctpop32(uint32_t x) { int n = 0; while (x) { n += x & 1; x >>= 1; } return n; }
static inline int __vx_ctpop64(uint64_t x) { int n = 0; while (x) { n += x & 1; x >>= 1; } return n; }
#endif
