/* Native support for (a) the clang build of the IR closure and (b) the gcc build of the
 * translated C: nondet_* read a value vector, assert/assume are logged.  Used for translator
 * validation and counterexample replay.  Not part of what CBMC sees. */
#include <stdio.h>
#include <stdlib.h>
#include <stdint.h>
#include <string.h>
static uint64_t* vec; static size_t vec_n, vec_i; static int loaded;
static void load(void) {
  if (loaded) return; loaded = 1;
  const char* f = getenv("VX_VEC"); if (!f) return;
  FILE* fp = fopen(f, "r"); if (!fp) return;
  size_t cap = 1024; vec = malloc(cap * sizeof *vec);
  unsigned long long v;
  while (fscanf(fp, "%llu", &v) == 1) { if (vec_n == cap) { cap *= 2; vec = realloc(vec, cap * sizeof *vec); } vec[vec_n++] = v; }
  fclose(fp);
}
static uint64_t nextv(void) { load(); return vec_i < vec_n ? vec[vec_i++] : (vec_i++, 0); }
uint8_t nondet_u8(void) { return (uint8_t)nextv(); }
uint16_t nondet_u16(void) { return (uint16_t)nextv(); }
uint32_t nondet_u32(void) { return (uint32_t)nextv(); }
uint64_t nondet_u64(void) { return (uint64_t)nextv(); }
static void fin(const char* why) { printf("END|%s|consumed=%zu\n", why, vec_i); fflush(stdout); _Exit(0); }
void vx_native_assert(int c, const char* d) { printf("A|%s|%d\n", d, c ? 1 : 0); fflush(stdout); }
void vx_native_iassert(int c, const char* d) { if (!c) { printf("I|%s|0\n", d); fflush(stdout); } }
void vx_native_assume(int c) { if (!c) fin("assume"); }
/* entry points the IR closure calls directly */
#ifdef VX_NATIVE_IR
void __CPROVER_assert(int c, const char* d) { vx_native_assert(c & 1, d); }
void __CPROVER_assume(int c) { vx_native_assume(c & 1); }
#endif
extern void VX_ENTRY(void);
int main(void) { setvbuf(stdout, 0, _IOLBF, 0); VX_ENTRY(); fin("return"); return 0; }
