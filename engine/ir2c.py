#!/usr/bin/env python3
"""ir2c: LLVM-14 typed-pointer textual IR  ->  C99 (for CBMC and for a native gcc build).

Part of the trusted base of /verif (see DESIGN.md section 1).  The translation is
validated on every run by executing the gcc build of its output and the clang
build of the very same IR on the same concrete vectors (engine/pipeline.py).

Supported IR subset is listed in DESIGN.md 1.1; anything else raises and the check
is reported as inconclusive (exit 2), never as a pass.
"""
import re, sys, struct, json

# ------------------------------------------------------------------ tokenizer
TOK = re.compile(r'''
   (?P<ws>\s+)
 | (?P<cstr>c"(?:[^"\\]|\\[0-9A-Fa-f]{2}|\\\\)*")
 | (?P<qname>[%@]"(?:[^"\\]|\\.)*")
 | (?P<name>[%@][-a-zA-Z$._0-9]+)
 | (?P<meta>![-a-zA-Z$._0-9]*|!\{[^}]*\})
 | (?P<attr>\#\d+)
 | (?P<float>-?\d+\.\d+(?:e[+-]?\d+)?|0x[KLMHR]?[0-9A-Fa-f]+)
 | (?P<int>-?\d+)
 | (?P<dots>\.\.\.)
 | (?P<word>[a-zA-Z_][a-zA-Z0-9_.]*)
 | (?P<punc><\{|\}>|[\[\](){}<>,=*:])
 | (?P<str>"(?:[^"\\]|\\.)*")
''', re.X)

def tokenize(s):
    out = []; i = 0; n = len(s)
    while i < n:
        m = TOK.match(s, i)
        if not m: raise SyntaxError('tok at %r' % s[i:i+60])
        i = m.end()
        k = m.lastgroup
        if k == 'ws': continue
        out.append((k, m.group()))
    return out

# ------------------------------------------------------------------ types
class T: pass
class IntT(T):
    def __init__(s, bits): s.bits = bits
    def __repr__(s): return 'i%d' % s.bits
    def key(s): return ('i', s.bits)
class FloatT(T):
    def __init__(s, name): s.name = name
    def key(s): return ('f', s.name)
class VoidT(T):
    def key(s): return ('void',)
class PtrT(T):
    def __init__(s, to): s.to = to
    def key(s): return ('p', s.to.key())
class ArrT(T):
    def __init__(s, n, el): s.n = n; s.el = el
    def key(s): return ('a', s.n, s.el.key())
class StructT(T):
    def __init__(s, fields, packed=False): s.fields = fields; s.packed = packed
    def key(s): return ('s', s.packed, tuple(f.key() for f in s.fields))
class NamedT(T):
    def __init__(s, name): s.name = name
    def key(s): return ('n', s.name)
class FuncT(T):
    def __init__(s, ret, params, varargs): s.ret = ret; s.params = params; s.varargs = varargs
    def key(s): return ('fn', s.ret.key(), tuple(p.key() for p in s.params), s.varargs)
class OpaqueT(T):
    def key(s): return ('opaque',)
class LabelT(T):
    def key(s): return ('label',)
class MetaT(T):
    def key(s): return ('meta',)
class TokenT(T):
    def key(s): return ('token',)

class P:
    """token stream parser"""
    def __init__(s, toks): s.t = toks; s.i = 0
    def peek(s, k=0): return s.t[s.i + k] if s.i + k < len(s.t) else (None, None)
    def next(s):
        x = s.t[s.i]; s.i += 1; return x
    def accept(s, val):
        if s.i < len(s.t) and s.t[s.i][1] == val: s.i += 1; return True
        return False
    def expect(s, val):
        x = s.next()
        if x[1] != val: raise SyntaxError('expected %r got %r at %d: %r' % (val, x, s.i, s.t[max(0, s.i-6):s.i+6]))
    def eof(s): return s.i >= len(s.t)

    def type(s):
        k, v = s.next()
        if k == 'word':
            if re.fullmatch(r'i\d+', v): t = IntT(int(v[1:]))
            elif v in ('float', 'double', 'x86_fp80', 'half', 'fp128'): t = FloatT(v)
            elif v == 'void': t = VoidT()
            elif v == 'label': t = LabelT()
            elif v == 'metadata': t = MetaT()
            elif v == 'opaque': t = OpaqueT()
            elif v == 'token': t = TokenT()
            elif v == 'ptr': raise SyntaxError('opaque ptr')
            else: raise SyntaxError('type word %r' % v)
        elif k in ('name', 'qname') and v[0] == '%':
            t = NamedT(v)
        elif v == '[':
            n = int(s.next()[1]); s.expect('x'); el = s.type(); s.expect(']'); t = ArrT(n, el)
        elif v == '{' or v == '<{':
            packed = v == '<{'
            fs = []
            close = '}>' if packed else '}'
            if not s.accept(close):
                while True:
                    fs.append(s.type())
                    if s.accept(close): break
                    s.expect(',')
            t = StructT(fs, packed)
        elif v == '<':
            raise SyntaxError('vector type (disable vectorisation)')
        else:
            raise SyntaxError('type at %r' % (s.t[s.i-1:s.i+5],))
        while True:
            if s.accept('*'):
                t = PtrT(t)
            elif s.peek()[1] == '(':
                s.next(); ps = []; va = False
                if not s.accept(')'):
                    while True:
                        if s.peek()[0] == 'dots': s.next(); va = True
                        else:
                            ps.append(s.type()); skip_attrs(s)
                        if s.accept(')'): break
                        s.expect(',')
                t = FuncT(t, ps, va)
            elif s.peek() == ('word', 'addrspace'):
                raise SyntaxError('addrspace')
            else:
                break
        return t

PARAM_ATTRS = {'noundef', 'nonnull', 'nocapture', 'readonly', 'readnone', 'writeonly', 'noalias', 'signext', 'zeroext',
               'returned', 'immarg', 'nofree', 'inreg', 'nest', 'swiftself', 'captures', 'swifterror', 'nocallback'}

def skip_attrs(p, collect=None):
    """skip parameter / return attributes; record byval/sret types in collect"""
    while True:
        k, v = p.peek()
        if k == 'word' and (v in PARAM_ATTRS):
            p.next(); continue
        if k == 'word' and v in ('align', 'dereferenceable', 'dereferenceable_or_null'):
            p.next()
            if p.accept('('): p.next(); p.expect(')')
            else: p.next()
            continue
        if k == 'word' and v in ('byval', 'sret', 'inalloca', 'byref', 'preallocated', 'elementtype'):
            p.next(); p.expect('('); t = p.type(); p.expect(')')
            if collect is not None: collect[v] = t
            continue
        if k == 'attr': p.next(); continue
        break

LINKAGE = {'private', 'internal', 'available_externally', 'linkonce', 'weak', 'common', 'appending', 'extern_weak',
           'linkonce_odr', 'weak_odr', 'external', 'dso_local', 'dso_preemptable', 'default', 'hidden', 'protected',
           'unnamed_addr', 'local_unnamed_addr', 'thread_local', 'dllimport', 'dllexport', 'noundef', 'zeroext', 'signext',
           'nonnull', 'noalias', 'externally_initialized', 'fastcc', 'ccc'}

# ------------------------------------------------------------------ module
class Module:
    def __init__(s):
        s.types = {}      # name -> T
        s.globals = {}    # name -> (T, init tokens or None, const)
        s.funcs = {}      # name -> Func
        s.decls = {}      # name -> FuncT
        s.aliases = {}
        s.gorder = []
        s.attrgroups = {} # '#n' -> set of words
        s.fattrs = {}     # function name -> set of attr-group ids

class Func:
    def __init__(s, name, ftype, params, blocks, pattrs):
        s.name = name; s.ftype = ftype; s.params = params; s.blocks = blocks; s.pattrs = pattrs

def parse_module(text):
    m = Module()
    lines = text.split('\n')
    i = 0
    while i < len(lines):
        ln = lines[i]
        if not ln or ln[0] == ';' or ln.startswith('source_filename') or ln.startswith('target ') \
           or ln[0] == '!' or ln.startswith('$') or ln.startswith('module asm'):
            i += 1; continue
        if ln.startswith('attributes '):
            mm = re.match(r'attributes (#\d+) = \{(.*)\}', ln)
            m.attrgroups[mm.group(1)] = set(re.findall(r'[a-z_]+', re.sub(r'"[^"]*"(="[^"]*")?', '', mm.group(2))))
            i += 1; continue
        if ln[0] == '%':
            p = P(tokenize(ln)); name = p.next()[1]; p.expect('='); p.expect('type')
            m.types[name] = p.type(); i += 1; continue
        if ln[0] == '@':
            p = P(tokenize(strip_meta(ln))); name = p.next()[1]; p.expect('=')
            while p.peek()[0] == 'word' and p.peek()[1] in LINKAGE:
                if p.peek()[1] == 'thread_local': raise SyntaxError('thread_local ' + name)
                p.next()
            kw = p.next()[1]
            if kw == 'alias':
                p.type(); p.expect(',')
                p.type()
                tgt = p.next()[1]
                m.aliases[name] = tgt; i += 1; continue
            assert kw in ('global', 'constant'), ln[:80]
            ty = p.type()
            rest = p.t[p.i:]
            depth = 0; cut = len(rest)
            for j, (k, v) in enumerate(rest):
                if v in ('(', '[', '{', '<{', '<'): depth += 1
                elif v in (')', ']', '}', '}>', '>'): depth -= 1
                elif v == ',' and depth == 0:
                    cut = j; break
            init = rest[:cut] if cut > 0 else None
            m.globals[name] = (ty, init, kw == 'constant'); m.gorder.append(name)
            i += 1; continue
        if ln.startswith('declare'):
            p = P(tokenize(strip_meta(ln))); p.next()
            while p.peek()[0] == 'word' and p.peek()[1] in LINKAGE: p.next()
            skip_attrs(p)
            ret = p.type(); name = p.next()[1]; p.expect('(')
            ps = []; va = False
            if not p.accept(')'):
                while True:
                    if p.peek()[0] == 'dots': p.next(); va = True
                    else:
                        ps.append(p.type()); skip_attrs(p)
                        if p.peek()[0] in ('name', 'qname'): p.next()
                    if p.accept(')'): break
                    p.expect(',')
            m.decls[name] = FuncT(ret, ps, va)
            m.fattrs[name] = set(v for k, v in p.t[p.i:] if k == 'attr')
            i += 1; continue
        if ln.startswith('define'):
            hdr = ln
            body = []
            i += 1
            while lines[i] != '}':
                body.append(lines[i]); i += 1
            i += 1
            hdr = re.sub(r'\bcomdat(\(\$[^)]*\))?', '', hdr)
            p = P(tokenize(strip_meta(hdr.rstrip(' {')))); p.next()
            while p.peek()[0] == 'word' and p.peek()[1] in LINKAGE: p.next()
            skip_attrs(p)
            ret = p.type(); name = p.next()[1]; p.expect('(')
            ps = []; pn = []; va = False; pattrs = []
            if not p.accept(')'):
                while True:
                    if p.peek()[0] == 'dots': p.next(); va = True
                    else:
                        ps.append(p.type()); col = {}; skip_attrs(p, col); pattrs.append(col)
                        pn.append(p.next()[1])
                    if p.accept(')'): break
                    p.expect(',')
            m.funcs[name] = Func(name, FuncT(ret, ps, va), pn, body, pattrs)
            tail = []
            for k, v in p.t[p.i:]:
                if v in ('personality', 'prologue', 'prefix'): break
                tail.append((k, v))
            m.fattrs[name] = set(v for k, v in tail if k == 'attr')
            continue
        raise SyntaxError('module line: ' + ln[:100])
    return m

def strip_meta(ln):
    if '!' in ln:
        ln = re.sub(r',\s*![\w.]+\s+!\d+', '', ln)
        ln = re.sub(r',\s*![\w.]+\s+!\{[^}]*\}', '', ln)
    if 'align' in ln:
        ln = re.sub(r',\s*align\s+\d+', '', ln)
    if ';' in ln and '"' not in ln: ln = ln[:ln.index(';')]
    return ln

def cbytes(tok):
    body = tok[2:-1]; out = []; i = 0
    while i < len(body):
        if body[i] == '\\':
            if body[i+1] == '\\': out.append(92); i += 2
            else: out.append(int(body[i+1:i+3], 16)); i += 3
        else: out.append(ord(body[i])); i += 1
    return out

# ------------------------------------------------------------------ C emission helpers
def cid(name):
    n = name[1:]
    if n.startswith('"'): n = n[1:-1]
    return re.sub(r'[^A-Za-z0-9_]', '_', n)

RENAME = {'@div': '__vx_div', '@abs': '__vx_abs', '@labs': '__vx_labs'}     # C library names whose IR-level (ABI-coerced) type clashes with the libc header declaration

def gname(name):
    if name in RENAME: return RENAME[name]
    if re.fullmatch(r'@[A-Za-z_][A-Za-z0-9_]*', name): return name[1:]
    return 'g_' + cid(name)

def sx(bits):
    for w in (8, 16, 32, 64):
        if bits <= w: return 'int%d_t' % w
    return '__int128'

BIGTAB_MIN = 2048   # constant integer arrays with at least this many elements become decision-tree functions

class Emitter:
    def __init__(s, m):
        s.m = m
        s.anon = {}
        s.typedefs = []
        s.fwd = []
        s.done_named = set()
        s.inprogress = set()
        s.snames = {}
        s.used_snames = set()

    def resolve(s, t):
        while isinstance(t, NamedT):
            t = s.m.types[t.name]
        return t

    def ctype(s, t):
        if isinstance(t, IntT):
            b = t.bits
            if b == 1: return '_Bool'
            for w in (8, 16, 32, 64):
                if b <= w: return 'uint%d_t' % w
            if b <= 128: return 'unsigned __int128'
            raise NotImplementedError('int width %d' % b)
        if isinstance(t, FloatT):
            return {'float': 'float', 'double': 'double', 'x86_fp80': 'long double'}[t.name]
        if isinstance(t, VoidT): return 'void'
        if isinstance(t, PtrT):
            to = t.to
            if isinstance(to, FuncT): return s.fntype(to) + '*'
            if isinstance(to, VoidT): return 'void*'
            return s.ctype_fwd(to) + '*'
        if isinstance(t, NamedT):
            s.need_named(t.name); return 'struct ' + s.sname(t.name)
        if isinstance(t, (StructT, ArrT)):
            return 'struct ' + s.anon_struct(t)
        if isinstance(t, FuncT): return s.fntype(t)
        if isinstance(t, OpaqueT): return 'void'
        raise NotImplementedError(repr(t))

    def ctype_fwd(s, t):
        if isinstance(t, NamedT):
            if isinstance(s.m.types.get(t.name), OpaqueT):
                s.fwd_named(t.name)
                return 'struct ' + s.sname(t.name)
            s.fwd_named(t.name); return 'struct ' + s.sname(t.name)
        return s.ctype(t)

    def sname(s, name):
        if name not in s.snames:
            base = 'S_' + cid(name); c = base; k = 1
            while c in s.used_snames:
                k += 1; c = '%s_%d' % (base, k)
            s.used_snames.add(c); s.snames[name] = c
        return s.snames[name]

    def fwd_named(s, name):
        if ('fwd', name) not in s.anon:
            s.anon[('fwd', name)] = True
            s.fwd.append('struct %s;' % s.sname(name))

    def need_named(s, name):
        if name in s.done_named: return
        if name in s.inprogress: raise RuntimeError('recursive by-value struct ' + name)
        s.fwd_named(name)
        s.inprogress.add(name)
        t = s.m.types[name]
        if isinstance(t, OpaqueT):
            s.typedefs.append('struct %s { char _opaque; };' % s.sname(name))
            s.done_named.add(name); s.inprogress.discard(name); return
        body = s.struct_body(t)
        s.typedefs.append('struct %s %s;' % (s.sname(name), body))
        s.done_named.add(name); s.inprogress.discard(name)

    def struct_body(s, t):
        fs = []
        for i, f in enumerate(t.fields):
            fs.append('%s f%d;' % (s.ctype(f), i))
        if not fs: fs = ['char _empty;']
        return '{ %s }%s' % (' '.join(fs), ' __attribute__((packed))' if t.packed else '')

    def anon_struct(s, t):
        k = t.key()
        if k in s.anon: return s.anon[k]
        name = 'A%d' % len(s.anon)
        s.anon[k] = name
        if isinstance(t, ArrT):
            n = max(t.n, 1)
            s.typedefs.append('struct %s { %s a[%d]; };' % (name, s.ctype(t.el), n))
        else:
            s.typedefs.append('struct %s %s;' % (name, s.struct_body(t)))
        return name

    def fntype(s, t):
        k = t.key()
        if k in s.anon: return s.anon[k]
        name = 'F%d' % len(s.anon)
        s.anon[k] = name
        ps = ', '.join(s.ctype(p) for p in t.params)
        if t.varargs: ps = (ps + ', ...') if ps else ''
        if not ps and not t.varargs: ps = 'void'
        s.typedefs.append('typedef %s %s(%s);' % (s.ctype(t.ret), name, ps))
        return name

# ------------------------------------------------------------------ values
class V:
    def __init__(s, c, t, const=None, gbase=None):
        s.c = c; s.t = t; s.const = const   # C expression, LLVM type, python int if literal
        s.gbase = gbase                     # (global name, [index V...]) when value is a GEP rooted at a global

class FnCtx:
    def __init__(s, tr, f):
        s.tr = tr; s.em = tr.em; s.m = tr.m; s.f = f
        s.vals = {}

    def lname(s, n): return 'v_' + cid(n)

    def value(s, p, t):
        k, v = p.peek()
        rt = s.em.resolve(t)
        if k in ('name', 'qname'):
            p.next()
            if v[0] == '%':
                return V(s.lname(v), t)
            return s.gref(v, t)
        if k == 'int':
            p.next()
            if isinstance(rt, IntT):
                n = int(v)
                if n < 0: n += 1 << rt.bits
                if rt.bits > 64:
                    hi, lo = n >> 64, n & ((1 << 64) - 1)
                    return V('(((unsigned __int128)%dULL << 64) | %dULL)' % (hi, lo), t, n)
                suf = 'ULL' if rt.bits > 32 else 'U'
                return V('((%s)%d%s)' % (s.em.ctype(t), n, suf), t, n)
            if isinstance(rt, FloatT): return V('((%s)%s)' % (s.em.ctype(t), v), t)
            raise SyntaxError('int for ' + repr(rt))
        if k == 'float':
            p.next()
            if v.startswith('0x'):
                if v[2] in 'KLMHR': raise NotImplementedError('long double constant')
                d = struct.unpack('>d', bytes.fromhex(v[2:].rjust(16, '0')))[0]
                if d != d or d in (float('inf'), float('-inf')):
                    c = 'NAN' if d != d else ('INFINITY' if d > 0 else '-INFINITY')
                    return V('((%s)%s)' % (s.em.ctype(t), c), t)
                return V('((%s)%r)' % (s.em.ctype(t), d), t)
            return V('((%s)%s)' % (s.em.ctype(t), v), t)
        if k == 'word':
            if v in ('true', 'false'): p.next(); return V('((_Bool)%d)' % (v == 'true'), t, int(v == 'true'))
            if v == 'null': p.next(); return V('((%s)0)' % s.em.ctype(t), t, 0)
            if v in ('undef', 'poison', 'zeroinitializer'):
                p.next()
                if isinstance(rt, (IntT, FloatT, PtrT)): return V('((%s)0)' % s.em.ctype(t), t, 0 if isinstance(rt, IntT) else None)
                return V('((%s){0})' % s.em.ctype(t), t)
            if v in CONSTEXPR_OPS:
                return s.constexpr(p)
        if v in ('{', '<{', '[') or k == 'cstr':
            # aggregate constant used as an operand (e.g. insertvalue seed, store of a constant struct)
            return V('((%s)%s)' % (s.em.ctype(t), s.tr.cinit(s, p, t)), t)
        raise SyntaxError('value %r %r' % (k, v))

    def tvalue(s, p):
        t = p.type(); skip_attrs(p)
        return s.value(p, t)

    def gref(s, name, t):
        if name in s.m.aliases: name = s.m.aliases[name]
        s.tr.note_global_use(name)
        v = V('((%s)&%s)' % (s.em.ctype(t), gname(name)), t, gbase=(name, []))
        g = s.m.globals.get(name)
        if g is not None and isinstance(t, PtrT) and t.to.key() == g[0].key() and name not in s.tr.bigtabs:
            v.glv = gname(name)
        return v

    def constexpr(s, p):
        op = p.next()[1]
        em = s.em
        if op in ('bitcast', 'inttoptr', 'ptrtoint', 'addrspacecast', 'trunc', 'zext', 'sext'):
            p.expect('('); a = s.tvalue(p); p.expect('to'); t = p.type(); p.expect(')')
            if op in ('ptrtoint', 'inttoptr'): return V('((%s)(uintptr_t)%s)' % (em.ctype(t), a.c), t)
            if op == 'sext':
                return V('((%s)(%s)(%s)%s)' % (em.ctype(t), sx(em.resolve(t).bits), sx(em.resolve(a.t).bits), a.c), t)
            gb = a.gbase if op == 'bitcast' and a.gbase and not a.gbase[1] else None
            return V('((%s)%s)' % (em.ctype(t), a.c), t, gbase=gb)
        if op == 'getelementptr':
            p.accept('inbounds'); p.expect('(')
            bt = p.type(); p.expect(',')
            base = s.tvalue(p)
            idx = []
            while p.accept(','):
                p.accept('inrange')
                idx.append(s.tvalue(p))
            p.expect(')')
            return s.gep(bt, base, idx)
        if op in ('add', 'sub', 'mul', 'and', 'or', 'xor', 'shl', 'lshr'):
            while p.peek()[1] in FLAGS: p.next()
            p.expect('('); a = s.tvalue(p); p.expect(','); b = s.tvalue(p); p.expect(')')
            return V('((%s)(%s %s %s))' % (em.ctype(a.t), a.c, BIN[op], b.c), a.t)
        if op == 'icmp':
            pred = p.next()[1]; p.expect('('); a = s.tvalue(p); p.expect(','); b = s.tvalue(p); p.expect(')')
            return V('(%s %s %s)' % (a.c, ICMP[pred], b.c), IntT(1))
        if op == 'select':
            p.expect('('); c = s.tvalue(p); p.expect(','); a = s.tvalue(p); p.expect(','); b = s.tvalue(p); p.expect(')')
            return V('(%s ? %s : %s)' % (c.c, a.c, b.c), a.t)
        raise SyntaxError('constexpr ' + op)

    def gep(s, bt, base, idx):
        """address computation as '&(lvalue)': the lvalue is plain member/element syntax (g.f0.f5.a[i] or p->f0.a[i]) so that CBMC sees typed,
        field-sensitive accesses when a load/store is emitted on it"""
        em = s.em
        cur = bt
        i0 = idx[0]
        gb = None
        if base.gbase is not None and i0.const == 0:
            gb = (base.gbase[0], list(base.gbase[1]))
        if len(idx) == 1:
            e = base.c if i0.const == 0 else '(%s + %s)' % (base.c, s.sidx(i0))
            return V(e, PtrT(cur), gbase=gb)
        glv = getattr(base, 'glv', None)
        if glv is not None and i0.const == 0: lv = glv
        elif getattr(base, 'lv', None) is not None and i0.const == 0: lv = base.lv
        elif i0.const == 0: lv = '(*%s)' % base.c
        else: lv = '(%s)[%s]' % (base.c, s.sidx(i0))
        for ix in idx[1:]:
            rt = em.resolve(cur)
            if isinstance(rt, StructT):
                k = ix.const
                if k is None: raise NotImplementedError('variable struct index')
                lv = '%s.f%d' % (lv, k); cur = rt.fields[k]
                if gb: gb[1].append(('f', k))
            elif isinstance(rt, ArrT):
                lv = '%s.a[%s]' % (lv, s.sidx(ix)); cur = rt.el
                if gb: gb[1].append(('a', ix))
            else:
                raise NotImplementedError('gep into %r' % rt)
        v = V('(&%s)' % lv, PtrT(cur), gbase=gb)
        v.lv = lv
        return v

    def sidx(s, ix):
        rt = s.em.resolve(ix.t)
        if ix.const is not None:
            n = ix.const
            if n >= 1 << (rt.bits - 1): n -= 1 << rt.bits
            return '(%dLL)' % n
        return '(%s)%s' % (sx(rt.bits), ix.c)

CONSTEXPR_OPS = {'bitcast', 'getelementptr', 'inttoptr', 'ptrtoint', 'addrspacecast', 'trunc', 'zext', 'sext',
                 'add', 'sub', 'mul', 'and', 'or', 'xor', 'shl', 'lshr', 'icmp', 'select'}
BIN = {'add': '+', 'sub': '-', 'mul': '*', 'and': '&', 'or': '|', 'xor': '^', 'shl': '<<', 'lshr': '>>', 'udiv': '/', 'urem': '%'}
SBIN = {'sdiv': '/', 'srem': '%', 'ashr': '>>'}
FBIN = {'fadd': '+', 'fsub': '-', 'fmul': '*', 'fdiv': '/'}
ICMP = {'eq': '==', 'ne': '!=', 'ugt': '>', 'uge': '>=', 'ult': '<', 'ule': '<=', 'sgt': '>', 'sge': '>=', 'slt': '<', 'sle': '<='}
FCMP = {'oeq': '==', 'one': '!=', 'ogt': '>', 'oge': '>=', 'olt': '<', 'ole': '<=', 'ueq': '==', 'une': '!=', 'ugt': '>', 'uge': '>=',
        'ult': '<', 'ule': '<='}
FLAGS = {'nuw', 'nsw', 'exact', 'inbounds', 'fast', 'nnan', 'ninf', 'nsz', 'arcp', 'contract', 'afn', 'reassoc', 'volatile',
         'tail', 'musttail', 'notail', 'noundef', 'fastcc', 'ccc'}

# functions provided by the runtime model / C library / CBMC: no prototype is emitted from the IR declaration
BUILTIN_DECL = {'@malloc', '@free', '@calloc', '@realloc', '@memcpy', '@memset', '@memmove', '@memcmp', '@bcmp', '@strlen', '@memchr',
                '@strcmp', '@strncmp', '@abort',
                '@__CPROVER_assume', '@__CPROVER_assert', '@__gxx_personality_v0', '@__dynamic_cast'}
# calls after which no "exception pending" test is emitted
NOTHROW = {'@div', '@abs', '@labs', '@malloc', '@free', '@calloc', '@realloc', '@__CPROVER_assume', '@__CPROVER_assert', '@__cxa_begin_catch', '@__cxa_end_catch',
           '@__cxa_allocate_exception', '@__cxa_free_exception', '@memcmp', '@bcmp', '@strlen', '@memchr', '@strcmp', '@strncmp',
           '@__cxa_guard_acquire', '@__cxa_guard_release', '@__cxa_guard_abort', '@__cxa_atexit', '@__dynamic_cast', '@abort',
           '@__cxa_pure_virtual', '@_ZSt9terminatev', '@__clang_call_terminate'}
# runtime-model functions implemented in cxxrt.c (the IR only declares them)
RUNTIME = {'@div', '@abs', '@labs', '@__cxa_allocate_exception', '@__cxa_free_exception', '@__cxa_throw', '@__cxa_begin_catch', '@__cxa_end_catch',
           '@__cxa_rethrow', '@_ZSt9terminatev', '@__cxa_pure_virtual', '@_ZdlPv', '@_ZdaPv', '@_Znwm', '@_Znam', '@_ZdlPvm', '@_ZdaPvm',
           '@__cxa_guard_acquire', '@__cxa_guard_release', '@__cxa_guard_abort', '@__cxa_atexit', '@__clang_call_terminate',
           '@__cxa_get_exception_ptr', '@_ZSt17__throw_bad_allocv', '@__cxa_bad_cast', '@__cxa_bad_typeid',
           '@_ZnwmRKSt9nothrow_t', '@_ZnamRKSt9nothrow_t', '@__cxa_deleted_virtual', '@__cxa_call_unexpected'}

RUNTIME_BODIES = {
 # exception objects live in a small static ring (one heap object per potential throw site makes every pointer dereference in the
 # closure range over hundreds of dynamic objects); at most VX_EXC_SLOTS exceptions are alive at once (asserted)
 '@__cxa_allocate_exception': '{ __VX_ASSERT(a0 <= VX_EXC_SIZE, "exception object fits the modelled slot"); __VX_ASSERT(__vx_exc_alive < VX_EXC_SLOTS, "number of live exception objects within the model"); '
   '__CPROVER_assume(a0 <= VX_EXC_SIZE && __vx_exc_alive < VX_EXC_SLOTS); void* p = (void*)__vx_exc_store[__vx_exc_next]; __vx_exc_next = (__vx_exc_next + 1) % VX_EXC_SLOTS; __vx_exc_alive++; return (RET)p; }',
 '@__cxa_free_exception': '{ __vx_exc_alive--; }',
 '@__cxa_throw': '{ __vx_exc_obj = (void*)a0; __vx_exc_type = (void*)a1; __vx_exc_dtor = (void*)a2; __vx_pending = 1; }',
 '@__cxa_begin_catch': '{ __VX_ASSERT(__vx_caught_n < VX_CAUGHT_MAX, "caught-exception stack depth"); __CPROVER_assume(__vx_caught_n < VX_CAUGHT_MAX);'
   ' __vx_caught_obj[__vx_caught_n] = __vx_exc_obj; __vx_caught_type[__vx_caught_n] = __vx_exc_type; __vx_caught_dtor[__vx_caught_n] = __vx_exc_dtor;'
   ' __vx_caught_rethrown[__vx_caught_n] = 0; __vx_caught_n++; return (RET)a0; }',
 '@__cxa_get_exception_ptr': '{ return (RET)a0; }',
 '@__cxa_end_catch': '{ __VX_ASSERT(__vx_caught_n > 0, "end_catch without begin_catch"); __CPROVER_assume(__vx_caught_n > 0); __vx_caught_n--;'
   ' if (!__vx_caught_rethrown[__vx_caught_n]) { int sp = __vx_pending; void* so = __vx_exc_obj; void* st = __vx_exc_type; void* sd = __vx_exc_dtor; __vx_pending = 0;'
   ' if (__vx_caught_dtor[__vx_caught_n]) __vx_run_exc_dtor(__vx_caught_dtor[__vx_caught_n], __vx_caught_obj[__vx_caught_n]);'
   ' __vx_exc_alive--; __vx_pending = sp; __vx_exc_obj = so; __vx_exc_type = st; __vx_exc_dtor = sd; } }',
 '@__cxa_rethrow': '{ __VX_ASSERT(__vx_caught_n > 0, "rethrow outside handler"); __CPROVER_assume(__vx_caught_n > 0);'
   ' __vx_caught_rethrown[__vx_caught_n - 1] = 1; __vx_exc_obj = __vx_caught_obj[__vx_caught_n - 1]; __vx_exc_type = __vx_caught_type[__vx_caught_n - 1];'
   ' __vx_exc_dtor = __vx_caught_dtor[__vx_caught_n - 1]; __vx_pending = 1; }',
 '@_ZSt9terminatev': '{ __VX_ASSERT(0, "std::terminate reached"); __CPROVER_assume(0); }',
 '@__clang_call_terminate': '{ __VX_ASSERT(0, "std::terminate reached (exception escaped a noexcept region)"); __CPROVER_assume(0); }',
 '@__cxa_call_unexpected': '{ __VX_ASSERT(0, "std::unexpected reached"); __CPROVER_assume(0); }',
 '@__cxa_pure_virtual': '{ __VX_ASSERT(0, "pure virtual call"); __CPROVER_assume(0); }',
 '@__cxa_deleted_virtual': '{ __VX_ASSERT(0, "deleted virtual call"); __CPROVER_assume(0); }',
 '@__cxa_bad_cast': '{ __VX_ASSERT(0, "bad_cast"); __CPROVER_assume(0); }',
 '@__cxa_bad_typeid': '{ __VX_ASSERT(0, "bad_typeid"); __CPROVER_assume(0); }',
 '@_ZSt17__throw_bad_allocv': '{ __VX_ASSERT(0, "bad_alloc"); __CPROVER_assume(0); }',
 '@_Znwm': '{ void* p = malloc(a0); __CPROVER_assume(p != 0); return (RET)p; }',
 '@_Znam': '{ void* p = malloc(a0); __CPROVER_assume(p != 0); return (RET)p; }',
 '@_ZnwmRKSt9nothrow_t': '{ void* p = malloc(a0); __CPROVER_assume(p != 0); return (RET)p; }',
 '@_ZnamRKSt9nothrow_t': '{ void* p = malloc(a0); __CPROVER_assume(p != 0); return (RET)p; }',
 '@_ZdlPv': '{ free((void*)a0); }', '@_ZdaPv': '{ free((void*)a0); }', '@_ZdlPvm': '{ free((void*)a0); }', '@_ZdaPvm': '{ free((void*)a0); }',
 '@abs': '{ int32_t v = (int32_t)a0; return (RET)(uint32_t)(v < 0 ? -v : v); }',
 '@labs': '{ int64_t v = (int64_t)a0; return (RET)(uint64_t)(v < 0 ? -v : v); }',
 '@div': '{ int32_t q = (int32_t)a0 / (int32_t)a1; int32_t r = (int32_t)a0 % (int32_t)a1; return (RET)(((uint64_t)(uint32_t)r << 32) | (uint64_t)(uint32_t)q); }',
 '@__cxa_guard_acquire': '{ return (RET)(*(uint8_t*)a0 == 0); }',
 '@__cxa_guard_release': '{ *(uint8_t*)a0 = 1; }',
 '@__cxa_guard_abort': '{ }',
 '@__cxa_atexit': '{ return (RET)0; }',
}

DYNCAST = '''static uint8_t* __vx_dynamic_cast(uint8_t* src, uint8_t* src_ti, uint8_t* dst_ti, int64_t hint) {
  uint8_t** vptr = *(uint8_t***)src;
  int64_t off_to_top = (int64_t)(intptr_t)vptr[-2];
  uint8_t* md_ti = vptr[-1];
  uint8_t* md = src + off_to_top;
  int found = 0;
  int64_t off = __vx_base_off((void*)md_ti, (void*)dst_ti, &found);
  return found ? md + off : (uint8_t*)0;
}
'''

class Translator:
    def __init__(s, m, opts=None):
        s.m = m; s.em = Emitter(m)
        s.opts = opts or {}
        s.used_globals = set()
        s.bigtabs = {}      # global name -> (elem C type, elem llvm T, values list)
        s.ti_ids = {}       # typeinfo global name -> small int id
        s.autostubs = []
        s.rtbodies = []
        s.throw_dtors = set()
        s.asserts = []      # harness assertion descriptions
        s.find_bigtabs()

    def note_global_use(s, name): s.used_globals.add(name)

    # ---------------------------------------------------------------- devirtualisation by vtable slot
    def vtable_slots(s):
        """slot index -> set of function names found at that slot (address point + slot) of any (sub-)vtable in the module"""
        if hasattr(s, '_vslots'): return s._vslots
        slots = {}; s._vsub = {}
        for n, (ty, init, const) in s.m.globals.items():
            if not n.startswith('@_ZTV') or init is None or n.startswith('@_ZTVN10__cxxabiv1'): continue
            # initializer: { [k x i8*] [i8* ..., ...], [j x i8*] [...] }: split into arrays by bracket depth
            depth = 0; cur = None; arrays = []
            toks = list(init); i = 0
            while i < len(toks):
                k, v = toks[i]
                if v == '[':
                    depth += 1
                    # '[' N 'x' type ']' is a type, '[' followed by element list is data: data arrays start with a type token then value
                    if depth == 1 and i + 2 < len(toks) and toks[i + 2][1] == 'x': pass
                    elif depth == 1: cur = []; arrays.append(cur)
                elif v == ']':
                    if depth == 1: cur = None
                    depth -= 1
                elif cur is not None and depth >= 1:
                    cur.append((k, v))
                i += 1
            for arr in arrays:
                # elements separated by ',' at paren depth 0
                elems = []; e = []; pd = 0
                for k, v in arr:
                    if v == '(': pd += 1
                    elif v == ')': pd -= 1
                    if v == ',' and pd == 0: elems.append(e); e = []
                    else: e.append((k, v))
                if e: elems.append(e)
                for idx, e in enumerate(elems):
                    fns = [v for k, v in e if k in ('name', 'qname') and v[0] == '@' and (v in s.m.funcs or v in s.m.decls)]
                    if fns and idx >= 2: slots.setdefault(idx - 2, set()).add((fns[0], n)); s._vsub.setdefault((n, arrays.index(arr)), {})[idx - 2] = fns[0]
        # harness-supplied entries: a global pointer-to-member constant  vx_vslot_<fn> = &Class::method  ({ i64 1 + 8*slot, i64 0 } in the
        # Itanium ABI) adds <fn> as a target of virtual calls through that slot (for objects of classes whose vtable is not in the closure)
        for n, (ty, init, const) in s.m.globals.items():
            if not n.startswith('@vx_vslot_') or init is None: continue
            ints = [int(v) for k, v in init if k == 'int']
            fn = '@' + n[len('@vx_vslot_'):]
            if ints and ints[0] % 8 == 1 and (fn in s.m.funcs or fn in s.m.decls):
                slots.setdefault((ints[0] - 1) // 8, set()).add((fn, '@vx_hint'))
        s._vslots = slots
        return slots

    def virtual_slot(s, callee):
        """if %callee = load (gep (load vptr), K) return K"""
        d = s.defs.get(callee)
        if not d or d[2][1] != 'load': return None
        names = [v for k, v in d[3:] if k in ('name', 'qname') and v[0] == '%' and v not in s.m.types]
        if not names: return None
        src = names[-1]
        g = s.defs.get(src)
        if not g: return None
        if g[2][1] == 'getelementptr':
            ints = [v for k, v in g[3:] if k == 'int']
            base = [v for k, v in g[3:] if k in ('name', 'qname') and v[0] == '%' and v not in s.m.types]
            if len(ints) != 1 or len(base) != 1: return None
            vt = s.defs.get(base[0])
            if not vt or vt[2][1] != 'load': return None
            return int(ints[0])
        if g[2][1] == 'load':       # slot 0: the function pointer is loaded straight from the vtable pointer
            return 0
        return None

    def virtual_vptr(s, callee):
        """SSA name of the vtable pointer the callee was loaded through (see virtual_slot)"""
        d = s.defs.get(callee)
        names = [v for k, v in d[3:] if k in ('name', 'qname') and v[0] == '%' and v not in s.m.types]
        src = names[-1]; g = s.defs.get(src)
        if g[2][1] == 'getelementptr':
            return [v for k, v in g[3:] if k in ('name', 'qname') and v[0] == '%' and v not in s.m.types][0]
        return src

    def vptr_cands(s, slot, key):
        """(vtable, sub-vtable index, function) for every address point in the closure whose entry at `slot` has the signature shape `key`"""
        s.vtable_slots()
        if not hasattr(s, '_vpts'): s._vpts = s.vtable_points()
        out = []
        for n, ai, top, ti in s._vpts:
            fn = s._vsub.get((n, ai), {}).get(slot)
            if fn is None: continue
            if s.loose_key(s.m.funcs[fn].ftype if fn in s.m.funcs else s.m.decls[fn]) == key: out.append((n, ai, fn))
        return out

    # ---------------------------------------------------------------- big constant tables
    def find_bigtabs(s):
        em = s.em
        consts = set(s.opts.get('const_tables', []))
        for n, (ty, init, const) in s.m.globals.items():
            rt = em.resolve(ty)
            if init is None or not isinstance(rt, ArrT) or rt.n < BIGTAB_MIN: continue
            el = em.resolve(rt.el)
            if not isinstance(el, IntT): continue
            if not const and init[0][1] == 'zeroinitializer': continue     # a large zero-initialised buffer is a buffer, not a table
            if not const and n not in consts and gname(n) not in consts:
                raise NotImplementedError('large mutable table %s (%d elements): list it in const_tables or cut its users' % (n, rt.n))
            vals = s.parse_int_array(init, rt)
            s.bigtabs[n] = (em.ctype(rt.el), rt.el, vals)

    def parse_int_array(s, init, rt):
        if init[0][1] == 'zeroinitializer': return [0] * rt.n
        if init[0][0] == 'cstr': return cbytes(init[0][1])
        vals = []
        p = P(list(init)); p.expect('[')
        while True:
            p.type(); k, v = p.next(); vals.append(int(v) & ((1 << s.em.resolve(rt.el).bits) - 1))
            if p.accept(']'): break
            p.expect(',')
        assert len(vals) == rt.n
        return vals

    def emit_bigtab(s, n):
        ct, elt, vals = s.bigtabs[n]
        runs = []
        st = 0
        for i in range(1, len(vals) + 1):
            if i == len(vals) or vals[i] != vals[st]:
                runs.append((st, i, vals[st])); st = i
        def tree(lo, hi, ind):
            if hi - lo == 1: return '%sreturn %d;' % (ind, runs[lo][2])
            mid = (lo + hi) // 2
            return '%sif (i < %dU) {\n%s\n%s} else {\n%s\n%s}' % (ind, runs[mid][0], tree(lo, mid, ind + ' '), ind, tree(mid, hi, ind + ' '), ind)
        fn = 'vxtab_' + gname(n)
        return ('/* %s: %d elements as %d runs */\nstatic %s %s(uint64_t i) {\n __VX_ASSERT(i < %dULL, "table index in bounds: %s");\n%s\n}\n'
                % (n, len(vals), len(runs), ct, fn, len(vals), gname(n), tree(0, len(runs), ' ')))

    def tabload_fn(s):
        """loads of a table element type through an unknown base pointer dispatch on the base"""
        out = []
        bytype = {}
        for n, (ct, elt, vals) in s.bigtabs.items(): bytype.setdefault(ct, []).append(n)
        for ct, ns in bytype.items():
            body = ''.join(' if ((void*)p == (void*)&%s) return vxtab_%s(i);\n' % (gname(n), gname(n)) for n in ns)
            out.append('static %s vx_tabload_%s(%s* p, int64_t i) {\n%s return p[i];\n}\n' % (ct, ct, ct, body))
        return '\n'.join(out)

    # ---------------------------------------------------------------- type-info hierarchy (static)
    def typeinfo_tables(s):
        """ancestors[ti] = set of ti names (incl. itself) reachable through public non-virtual bases; offsets for vmi"""
        m = s.m
        bases = {}
        for n, (ty, init, const) in m.globals.items():
            if not n.startswith('@_ZTI'): continue
            if init is None: bases[n] = []; continue
            toks = [v for k, v in init]
            names = [v for k, v in init if k in ('name', 'qname') and v.startswith('@_ZTI')]
            offs = []
            if any('__vmi_class_type_info' in v for v in toks):
                # { vptr, name, i32 flags, i32 count, (base ti, i64 offset_flags)* }
                ints = [int(v) for k, v in init if k == 'int']
                # layout: GEP idx ints (0? 2), ..., flags, count, then per base offset_flags
                cnt = len(names)
                ofl = ints[-cnt:] if cnt else []
                offs = [(b, f >> 8, f & 3) for b, f in zip(names, ofl)]
            else:
                offs = [(b, 0, 2) for b in names]
            bases[n] = offs
        s.ti_bases = bases
        anc = {}
        def walk(n, off, acc, seen):
            acc.setdefault(n, off)
            for b, o, fl in bases.get(n, []):
                if fl & 1: continue    # virtual base: not modelled
                walk(b, off + o, acc, seen)
        for n in bases:
            acc = {}; walk(n, 0, acc, set()); anc[n] = acc
        return anc

    def vtable_points(s):
        """(vtable global, sub-vtable index, offset-to-top, most-derived typeinfo) for every address point in the closure (no virtual bases)"""
        pts = []
        for n, (ty, init, const) in s.m.globals.items():
            if not n.startswith('@_ZTV') or init is None or n.startswith('@_ZTVN10__cxxabiv1'): continue
            ti = '@_ZTI' + n[len('@_ZTV'):]
            if ti not in s.m.globals: continue
            depth = 0; cur = None; arrays = []; toks = list(init); i = 0
            while i < len(toks):
                k, v = toks[i]
                if v == '[':
                    depth += 1
                    if depth == 1 and i + 2 < len(toks) and toks[i + 2][1] == 'x': pass
                    elif depth == 1: cur = []; arrays.append(cur)
                elif v == ']':
                    if depth == 1: cur = None
                    depth -= 1
                elif cur is not None and depth >= 1: cur.append((k, v))
                i += 1
            for ai, arr in enumerate(arrays):
                elems = []; e = []; pd = 0
                for k, v in arr:
                    if v == '(': pd += 1
                    elif v == ')': pd -= 1
                    if v == ',' and pd == 0: elems.append(e); e = []
                    else: e.append((k, v))
                if e: elems.append(e)
                if len(elems) < 2: continue
                ints = [int(v) for k, v in elems[0] if k == 'int' ]
                top = 0
                if any(v == 'inttoptr' for k, v in elems[0]) and ints: top = ints[0]
                elif not any(v == 'null' for k, v in elems[0]): continue
                if not any(v == ti for k, v in elems[1]): continue        # a construction vtable / VTT: not an ordinary address point
                pts.append((n, ai, top, ti))
        return pts

    def emit_dyncast(s):
        """dynamic_cast with the dispatch on the vtable pointer made explicit: in each branch the most-derived class and the offset-to-top are
        constants, so the result is `src + constant` (a symbolic pointer plus a value loaded from a vtable costs a byte-level update of the
        whole object at every store through the result)"""
        out = ['static uint8_t* __vx_dynamic_cast(uint8_t* src, uint8_t* src_ti, uint8_t* dst_ti, int64_t hint) {',
               '  uint8_t** vptr = *(uint8_t***)src; int found = 0; int64_t off;']
        for n, ai, top, ti in s.vtable_points():
            out.append('  if (vptr == (uint8_t**)&%s.f%d.a[2]) { off = __vx_base_off((void*)&%s, (void*)dst_ti, &found); return found ? src + (%d) + off : (uint8_t*)0; }' % (gname(n), ai, gname(ti), top))
        out.append('  { int64_t off_to_top = (int64_t)(intptr_t)vptr[-2]; uint8_t* md_ti = vptr[-1]; uint8_t* md = src + off_to_top;')
        out.append('    off = __vx_base_off((void*)md_ti, (void*)dst_ti, &found); return found ? md + off : (uint8_t*)0; }')
        out.append('}')
        return '\n'.join(out) + '\n'

    def ti_id(s, name):
        if name not in s.ti_ids: s.ti_ids[name] = len(s.ti_ids) + 2   # 1 is catch(...)
        return s.ti_ids[name]

    def emit_rtti(s):
        anc = s.typeinfo_tables()
        out = []
        # adjustment applied to the thrown object pointer is not modelled: only offset-0 bases may be caught
        out.append('static int __vx_catches(int catch_id, void* thrown) {')
        for n, acc in anc.items():
            ids = [s.ti_ids[a] for a in acc if a in s.ti_ids and acc[a] == 0]
            if not ids: continue
            out.append(' if (thrown == (void*)&%s) return %s;' % (gname(n), ' || '.join('catch_id == %d' % i for i in ids)))
        out.append(' return 0;\n}')
        # dynamic_cast: object -> (most-derived typeinfo from vtable[-1], offset-to-top vtable[-2])
        out.append('static int64_t __vx_base_off(void* derived_ti, void* base_ti, int* found) {')
        for n, acc in anc.items():
            for a, off in acc.items():
                out.append(' if (derived_ti == (void*)&%s && base_ti == (void*)&%s) { *found = 1; return %d; }' % (gname(n), gname(a), off))
        out.append(' *found = 0; return 0;\n}')
        return '\n'.join(out) + '\n'

    # ---------------------------------------------------------------- module
    def fproto(s, name, ft):
        em = s.em
        ps = ', '.join(em.ctype(p) for p in ft.params)
        if ft.varargs: ps = ps + ', ...' if ps else '...'
        if not ps: ps = 'void'
        return '%s %s(%s)' % (em.ctype(ft.ret), gname(name), ps)

    def nounwind(s, name):
        for a in s.m.fattrs.get(name, ()):
            if 'nounwind' in s.m.attrgroups.get(a, ()): return True
        return False

    def run(s):
        m = s.m; em = s.em
        ctx0 = FnCtx(s, None)
        for tn in list(m.types):
            em.need_named(tn)
        funcs = []
        for n, f in m.funcs.items():
            funcs.append(s.func(f))
        protos = []
        stubs = []
        for n, ft in m.decls.items():
            if n.startswith('@llvm.') or n in BUILTIN_DECL: continue
            protos.append(s.fproto(n, ft) + ';')
            if n in RUNTIME:
                ps = ', '.join('%s a%d' % (em.ctype(p), i) for i, p in enumerate(ft.params)) or 'void'
                s.rtbodies.append('%s %s(%s) %s' % (em.ctype(ft.ret), gname(n), ps, RUNTIME_BODIES[n].replace('RET', em.ctype(ft.ret))))
                continue
            if n.startswith('@nondet_') or n.startswith('@vx_'): continue
            if n in s.opts.get('extern_ok', ()): continue
            # unexplained undefined function: sound stub - reaching it fails the run as "unmodelled"
            s.autostubs.append(n)
            ps = ', '.join('%s a%d' % (em.ctype(p), i) for i, p in enumerate(ft.params)) or 'void'
            if ft.varargs: ps += ', ...'
            rz = s.zero(ft.ret)
            stubs.append('%s %s(%s) { __VX_ASSERT(0, "unmodelled function reached: %s"); __CPROVER_assume(0); %s }'
                         % (em.ctype(ft.ret), gname(n), ps, gname(n), ('return %s;' % rz) if rz else ''))
        for n, f in m.funcs.items():
            protos.append(s.fproto(n, f.ftype) + ';')
        gdecl = []; gdef = []
        for n in m.gorder:
            ty, init, const = m.globals[n]
            if n.startswith('@_ZTVN10__cxxabiv1'):
                gdecl.append('uint8_t* %s[8];' % gname(n)); continue
            if n in s.bigtabs:
                gdecl.append('%s %s[1];' % (s.bigtabs[n][0], gname(n)))
                continue
            ct = em.ctype(ty)
            if init is None:
                if n.startswith('@_ZTI'):
                    gdecl.append('struct { void* a; void* b; } %s;' % gname(n))   # external type_info: opaque root
                elif n == '@__dso_handle':
                    gdecl.append('extern %s %s;' % (ct, gname(n)))   # provided by the C runtime natively; only its address is used
                else:
                    # external data (defined in a TU that is not part of the closure): an `extern` declaration without definition is an
                    # object of ARBITRARY content for CBMC (sound over-approximation; a harness whose verdict depends on the value must
                    # add the defining TU).  The native builds need a definition.
                    gdecl.append('#ifdef VX_NATIVE\n%s %s;\n#else\nextern %s %s;\n#endif' % (ct, gname(n), ct, gname(n)))
            else:
                gdecl.append('%s%s %s;' % ('', ct, gname(n)))
                gdef.append((n, ty, init, const))
        ginit = []
        for n, ty, init, const in gdef:
            p = P(list(init))
            c = s.cinit(ctx0, p, ty)
            ginit.append('%s %s = %s;' % (em.ctype(ty), gname(n), c))
        out = ['#include "cxxrt.h"']
        out += em.fwd + em.typedefs
        out += protos + gdecl
        for n in s.bigtabs: out.append(s.emit_bigtab(n))
        if s.bigtabs: out.append(s.tabload_fn())
        out += ginit
        out.append(s.emit_rtti())
        out += stubs
        out.append(s.emit_dyncast())
        out += s.rtbodies
        out += funcs
        # destructor of a caught exception object: explicit dispatch over the destructors passed to __cxa_throw anywhere in the closure
        # (a call through the stored pointer makes CBMC try every address-taken function of compatible shape)
        dd = ['static void __vx_run_exc_dtor(void* d, void* obj) {']
        for n in sorted(s.throw_dtors):
            ft = m.funcs[n].ftype if n in m.funcs else m.decls.get(n)
            if ft is None or not ft.params: continue
            dd.append(' if (d == (void*)&%s) { %s((%s)obj); return; }' % (gname(n), gname(n), em.ctype(ft.params[0])))
        dd.append(' __VX_ASSERT(0, "destructor of the caught exception is one passed to __cxa_throw in this closure"); }')
        out.append('\n'.join(dd))
        return '\n'.join(out) + '\n'

    def cinit(s, ctx, p, ty):
        em = s.em; rt = em.resolve(ty)
        k, v = p.peek()
        if v in ('zeroinitializer', 'undef', 'poison'):
            p.next(); return '{0}' if isinstance(rt, (StructT, ArrT)) else '0'
        if isinstance(rt, ArrT):
            if k == 'cstr':
                p.next(); bs = cbytes(v)
                return '{{' + ','.join(str(b) for b in bs) + '}}'
            p.expect('[')
            els = []
            if not p.accept(']'):
                while True:
                    t = p.type(); els.append(s.cinit(ctx, p, t))
                    if p.accept(']'): break
                    p.expect(',')
            return '{{' + ','.join(els) + '}}'
        if isinstance(rt, StructT):
            close = '}>' if v == '<{' else '}'
            p.next(); els = []
            if not p.accept(close):
                while True:
                    t = p.type(); els.append(s.cinit(ctx, p, t))
                    if p.accept(close): break
                    p.expect(',')
            return '{' + ','.join(els) + '}'
        return ctx.value(p, ty).c

    # ---------------------------------------------------------------- function
    def func(s, f):
        em = s.em
        ctx = FnCtx(s, f)
        ps = []
        for t, n in zip(f.ftype.params, f.params):
            ps.append('%s %s' % (em.ctype(t), ctx.lname(n))); ctx.vals[n] = t
        hdr = '%s %s(%s)' % (em.ctype(f.ftype.ret), gname(f.name), ', '.join(ps) if ps else 'void')
        blocks = []; cur = None
        nparams = len(f.params)
        for ln in f.blocks:
            if not ln.strip(): continue
            mm = re.match(r'^([-a-zA-Z$._0-9]+|"[^"]*"):', ln)
            if mm:
                cur = [mm.group(1).strip('"'), []]; blocks.append(cur); continue
            if cur is None:
                cur = [str(nparams), []]; blocks.append(cur)
            if cur[1] and (ln.startswith('    ') or (cur[1][-1].startswith('switch') and cur[1][-1].count('[') > cur[1][-1].count(']'))):
                cur[1][-1] = cur[1][-1] + ' ' + strip_meta(ln.strip())
            else:
                cur[1].append(strip_meta(ln.strip()))
        toks = {}
        phis = {}
        for lab, ins in blocks:
            for ln in ins:
                toks[id(ln)] = tokenize(ln)
        blocks = s.rpo(blocks, toks)
        decls = []
        code = []
        s.retzero = s.zero(f.ftype.ret)
        for lab, ins in blocks:
            phis[lab] = []
            for ln in ins:
                p = P(toks[id(ln)])
                if p.peek(1)[1] == '=' and p.peek(2)[1] == 'phi':
                    dst = p.next()[1]; p.next(); p.next()
                    while p.peek()[1] in FLAGS: p.next()
                    t = p.type(); inc = []
                    while True:
                        p.expect('['); st = p.i
                        depth = 0
                        while True:
                            v = p.peek()[1]
                            if v in ('(', '[', '{', '<{'): depth += 1
                            elif v in (')', ']', '}', '}>'): depth -= 1
                            elif v == ',' and depth == 0: break
                            p.next()
                        vt = p.t[st:p.i]; p.next(); pred = p.next()[1]; p.expect(']')
                        inc.append((vt, pred[1:].strip('"')))
                        if not p.accept(','): break
                    phis[lab].append((dst, t, inc)); ctx.vals[dst] = t
                    decls.append('%s %s;' % (em.ctype(t), ctx.lname(dst)))
        s.ctx = ctx; s.decls = decls; s.phis = phis; s.curfn = f.name
        # pre-scan for the growth idiom  (size_t)((double)x * C)  with C in {1.25, 1.5, 2.0}: bit-blasting an IEEE multiplication
        # costs more than the rest of a harness, while the expression equals exact integer arithmetic for x < 2^50 (asserted)
        uses = {}; defs = {}
        for lab, ins in blocks:
            for ln in ins:
                tk = toks[id(ln)]
                st = 2 if len(tk) > 2 and tk[1][1] == '=' else 0
                for k, v in tk[st:]:
                    if k in ('name', 'qname') and v[0] == '%': uses[v] = uses.get(v, 0) + 1
                if st == 2: defs[tk[0][1]] = tk
        s.fp_skip = set(); s.fp_peep = {}; s.defs = defs
        for name, tk in defs.items():
            if tk[2][1] != 'fptoui' or tk[3][1] != 'double' or tk[4][0] not in ('name', 'qname'): continue
            m = defs.get(tk[4][1])
            if not m or m[2][1] != 'fmul' or uses.get(tk[4][1], 0) != 1: continue
            ops = [t for t in m[3:] if t[1] not in FLAGS and t[1] != 'double' and t[1] != ',']
            if len(ops) != 2 or ops[0][0] not in ('name', 'qname') or ops[1][0] != 'float': continue
            cst = {'1.250000e+00': (5, 4), '1.500000e+00': (3, 2), '2.000000e+00': (2, 1)}.get(ops[1][1])
            u = defs.get(ops[0][1])
            if not cst or not u or u[2][1] != 'uitofp' or uses.get(ops[0][1], 0) != 1: continue
            s.fp_skip.add(tk[4][1]); s.fp_skip.add(ops[0][1])
            s.fp_peep[name] = (u[3:], cst)
        s.lp_selectors = {}; s.gepmap = {}; s.geplv = {}
        for lab, ins in blocks:
            code.append('L_%s: ;' % cid('%' + lab))
            s.curlab = lab
            for ln in ins:
                p = P(toks[id(ln)])
                if p.peek(1)[1] == '=' and p.peek(2)[1] == 'phi': continue
                try:
                    code += s.instr(p)
                except Exception as e:
                    raise RuntimeError('in %s: %s\n  %s: %s' % (f.name, ln, type(e).__name__, e))
        return hdr + ' {\n  ' + '\n  '.join(decls) + '\n  ' + '\n  '.join(code) + '\n}\n'

    def rpo(s, blocks, toks):
        """emit blocks in reverse post-order: every textually backward goto is then a natural-loop back edge to its header
        (CBMC identifies and counts loops by backward gotos; LLVM's own layout places 'backedge' trampoline blocks before their sources)"""
        succ = {}
        for lab, ins in blocks:
            out = []
            if ins:
                tk = toks[id(ins[-1])]
                for i, (k, v) in enumerate(tk):
                    if v == 'label' and i + 1 < len(tk): out.append(tk[i + 1][1][1:].strip('"'))
            succ[lab] = out
        order = []; seen = set()
        entry = blocks[0][0]
        # loop depth of every block (natural loops from dominators): successors are visited shallowest-first, so that the blocks of an inner
        # loop come out contiguous and textually nested inside the outer loop (CBMC's unwinding counters assume properly nested backward gotos;
        # with LLVM's "outer"/"inner" split of a loop with two back edges plain RPO interleaved them and the unwinding assertion failed at
        # every bound)
        depth = s.loop_depth(entry, succ)
        for lab in succ: succ[lab] = sorted(succ[lab], key=lambda x: depth.get(x, 0))
        stack = [(entry, iter(succ[entry]))]; seen.add(entry)
        while stack:
            lab, it = stack[-1]
            adv = False
            for nx in it:
                if nx not in seen and nx in succ:
                    seen.add(nx); stack.append((nx, iter(succ[nx]))); adv = True; break
            if not adv:
                order.append(lab); stack.pop()
        order.reverse()
        bymap = dict((lab, ins) for lab, ins in blocks)
        res = [[lab, bymap[lab]] for lab in order]
        res += [[lab, ins] for lab, ins in blocks if lab not in seen]   # unreachable blocks keep their place at the end
        return res

    def loop_depth(s, entry, succ):
        nodes = []; seen = {entry}; st = [entry]
        while st:
            n = st.pop(); nodes.append(n)
            for m in succ.get(n, ()):
                if m in succ and m not in seen: seen.add(m); st.append(m)
        if len(nodes) > 1500: return {}
        pred = dict((n, []) for n in nodes)
        for n in nodes:
            for m in succ.get(n, ()):
                if m in pred: pred[m].append(n)
        allset = set(nodes); dom = dict((n, allset) for n in nodes); dom[entry] = {entry}
        changed = True
        while changed:
            changed = False
            for n in nodes:
                if n == entry: continue
                ps = [dom[p] for p in pred[n]]
                nd = (set.intersection(*ps) if ps else set()) | {n}
                if nd != dom[n]: dom[n] = nd; changed = True
        depth = dict((n, 0) for n in nodes)
        loops = {}
        for u in nodes:
            for h in succ.get(u, ()):
                if h in dom.get(u, ()):        # back edge u -> h
                    body = loops.setdefault(h, {h})
                    st = [u]
                    while st:
                        x = st.pop()
                        if x in body: continue
                        body.add(x); st.extend(pred[x])
        for h, body in loops.items():
            for b in body: depth[b] += 1
        return depth

    def expand_gep(s, expr, depth=0):
        if depth > 6: return expr
        def rep_lv(m):
            e = s.geplv.get(m.group(1))
            return e if e is not None else m.group(0)
        expr = re.sub(r'\(\*(v_\w+)\)', rep_lv, expr)
        def rep(m):
            e = s.gepmap.get(m.group(0))
            return '(%s)' % e if e is not None else m.group(0)
        new = re.sub(r'\bv_\w+\b', rep, expr)
        return new

    def lvalue(s, a):
        """C lvalue for the address operand of a load/store"""
        if getattr(a, 'lv', None) is not None: return s.expand_gep(a.lv)        # constant-expression GEP used directly as operand
        if a.c in s.geplv: return s.geplv[a.c]
        return '*%s' % s.addr(a.c)

    def addr(s, c):
        """address operand of a load/store: the GEP expression itself when the operand is a GEP result of this function"""
        e = s.gepmap.get(c)
        return '(%s)' % e if e is not None else c

    def zero(s, t):
        rt = s.em.resolve(t)
        if isinstance(rt, VoidT): return ''
        if isinstance(rt, (StructT, ArrT)): return '(%s){0}' % s.em.ctype(t)
        return '(%s)0' % s.em.ctype(t)

    def define(s, dst, t, expr):
        if dst is None: return ['(void)(%s);' % expr]
        s.ctx.vals[dst] = t
        s.decls.append('%s %s;' % (s.em.ctype(t), s.ctx.lname(dst)))
        return ['%s = %s;' % (s.ctx.lname(dst), expr)]

    def goto(s, target):
        ctx = s.ctx
        target = target.strip('"')
        ph = s.phis.get(target, [])
        out = []
        if ph:
            tmps = []
            for k, (dst, t, inc) in enumerate(ph):
                for vt, pred in inc:
                    if pred == s.curlab:
                        v = ctx.value(P(list(vt)), t)
                        tmps.append((dst, t, v.c)); break
                else:
                    raise RuntimeError('no phi incoming for %s from %s' % (dst, s.curlab))
            out.append('{ ' + ' '.join('%s t%d = %s;' % (s.em.ctype(t), i, c) for i, (d, t, c) in enumerate(tmps)) + ' ' +
                       ' '.join('%s = t%d;' % (ctx.lname(d), i) for i, (d, t, c) in enumerate(tmps)) + ' }')
        out.append('goto L_%s;' % cid('%' + target))
        return ' '.join(out)

    def label(s, p):
        p.expect('label'); return p.next()[1][1:]

    def mask(s, rt, e):
        """truncate expression to an odd bit width held in a wider C type"""
        if rt.bits in (1, 8, 16, 32, 64, 128): return e
        return '(%s & %s)' % (e, '0x%xULL' % ((1 << rt.bits) - 1))

    def sval(s, rt, c):
        """signed interpretation of a value of width rt.bits"""
        if rt.bits in (8, 16, 32, 64): return '(%s)%s' % (sx(rt.bits), c)
        w = 8
        for w in (8, 16, 32, 64):
            if rt.bits <= w: break
        sh = w - rt.bits
        return '((%s)((%s)(%s << %d)) >> %d)' % (sx(w), sx(w), '(uint%d_t)%s' % (w, c), sh, sh)

    def instr(s, p):
        ctx = s.ctx; em = s.em
        dst = None
        if p.peek(1)[1] == '=':
            dst = p.next()[1]; p.next()
        op = p.next()[1]
        while op in ('tail', 'musttail', 'notail'): op = p.next()[1]
        if dst is not None and dst in s.fp_skip:
            return []
        if dst is not None and dst in s.fp_peep:
            utoks, (num, den) = s.fp_peep[dst]
            x = ctx.tvalue(P(list(utoks)))          # "iN %x to double": tvalue stops before 'to'
            while p.peek()[1] != 'to': p.next()
            p.next(); t = p.type()
            return ['__VX_ASSERT((uint64_t)%s < (1ULL << 50), "fp growth idiom: operand below 2^50 (integer rewrite exact)");' % x.c] + \
                   s.define(dst, t, '(%s)(((uint64_t)%s * %dULL) / %dULL)' % (em.ctype(t), x.c, num, den))
        if op in BIN or op in SBIN:
            flags = set()
            while p.peek()[1] in FLAGS: flags.add(p.next()[1])
            t = p.type(); a = ctx.value(p, t); p.expect(','); b = ctx.value(p, t)
            rt = em.resolve(t); ct = em.ctype(t)
            if rt.bits == 1:
                e = '(%s %s %s)' % (a.c, {'add': '^', 'sub': '^', 'mul': '&'}.get(op, BIN.get(op, '?')), b.c)
                return s.define(dst, t, '(_Bool)' + e)
            wide = 'unsigned __int128' if rt.bits > 64 else 'uint64_t' if rt.bits > 32 else 'uint32_t'
            if op in BIN:
                e = '((%s)%s %s (%s)%s)' % (wide, a.c, BIN[op], wide, b.c)
            else:
                sw = '__int128' if rt.bits > 64 else 'int64_t' if rt.bits > 32 else 'int32_t'
                if op == 'ashr':
                    e = '((%s)%s >> (%s)%s)' % (sw, s.sval(rt, a.c), wide, b.c)
                else:
                    e = '((%s)%s %s (%s)%s)' % (sw, s.sval(rt, a.c), SBIN[op], sw, s.sval(rt, b.c))
            return s.define(dst, t, s.mask(rt, '(%s)%s' % (ct, e)))
        if op in FBIN:
            while p.peek()[1] in FLAGS: p.next()
            t = p.type(); a = ctx.value(p, t); p.expect(','); b = ctx.value(p, t)
            return s.define(dst, t, '(%s %s %s)' % (a.c, FBIN[op], b.c))
        if op == 'fneg':
            while p.peek()[1] in FLAGS: p.next()
            a = ctx.tvalue(p); return s.define(dst, a.t, '(-%s)' % a.c)
        if op == 'icmp':
            pred = p.next()[1]; t = p.type(); a = ctx.value(p, t); p.expect(','); b = ctx.value(p, t)
            rt = em.resolve(t)
            if isinstance(rt, PtrT):
                if pred in ('eq', 'ne'):
                    e = '((void*)%s %s (void*)%s)' % (a.c, ICMP[pred], b.c)
                else:
                    # native pointer comparison: within one object CBMC compares (signed) offsets, so a pointer one-before or
                    # one-past the object still orders correctly (an integer comparison of CBMC's pointer encoding would not)
                    e = '__VX_PCMP(%s, %s, %s)' % (a.c, ICMP[pred], b.c)
            elif pred[0] == 's':
                e = '(%s %s %s)' % (s.sval(rt, a.c), ICMP[pred], s.sval(rt, b.c))
            else:
                e = '(%s %s %s)' % (a.c, ICMP[pred], b.c)
            return s.define(dst, IntT(1), e)
        if op == 'fcmp':
            while p.peek()[1] in FLAGS: p.next()
            pred = p.next()[1]; t = p.type(); a = ctx.value(p, t); p.expect(','); b = ctx.value(p, t)
            if pred == 'uno': return s.define(dst, IntT(1), '(%s != %s || %s != %s)' % (a.c, a.c, b.c, b.c))
            if pred == 'ord': return s.define(dst, IntT(1), '(%s == %s && %s == %s)' % (a.c, a.c, b.c, b.c))
            e = '(%s %s %s)' % (a.c, FCMP[pred], b.c)
            if pred[0] == 'u' and pred != 'une': e = '(%s || %s != %s || %s != %s)' % (e, a.c, a.c, b.c, b.c)
            return s.define(dst, IntT(1), e)
        if op in ('zext', 'trunc', 'bitcast', 'ptrtoint', 'inttoptr', 'sext', 'uitofp', 'sitofp', 'fptoui', 'fptosi', 'fpext', 'fptrunc'):
            a = ctx.tvalue(p); p.expect('to'); t = p.type()
            ct = em.ctype(t); art = em.resolve(a.t); rt = em.resolve(t)
            if op == 'sext':
                e = '(%s)(%s)%s' % (ct, sx(rt.bits), s.sval(art, a.c)) if art.bits > 1 else '(%s)(%s ? -1 : 0)' % (ct, a.c)
                e = s.mask(rt, e)
            elif op == 'trunc':
                e = s.mask(rt, '(%s)%s' % (ct, a.c)) if rt.bits > 1 else '(_Bool)(%s & 1)' % a.c
            elif op == 'sitofp':
                e = '(%s)%s' % (ct, s.sval(art, a.c))
            elif op == 'fptosi':
                e = '(%s)(%s)%s' % (ct, sx(rt.bits), a.c)
            elif op in ('ptrtoint', 'inttoptr'):
                e = '(%s)(uintptr_t)%s' % (ct, a.c)
            elif op == 'bitcast' and not isinstance(art, PtrT):
                if isinstance(art, IntT) and isinstance(rt, FloatT):
                    e = '__vx_bits2%s(%s)' % (rt.name, a.c)
                elif isinstance(art, FloatT) and isinstance(rt, IntT):
                    e = '__vx_%s2bits(%s)' % (art.name, a.c)
                else:
                    raise NotImplementedError('non-pointer bitcast')
            else:
                e = '(%s)%s' % (ct, a.c)
            r = s.define(dst, t, e)
            return r
        if op == 'select':
            while p.peek()[1] in FLAGS: p.next()
            c = ctx.tvalue(p); p.expect(','); a = ctx.tvalue(p); p.expect(','); b = ctx.tvalue(p)
            return s.define(dst, a.t, '(%s ? %s : %s)' % (c.c, a.c, b.c))
        if op == 'getelementptr':
            p.accept('inbounds'); bt = p.type(); p.expect(','); base = ctx.tvalue(p); idx = []
            while p.accept(','): idx.append(ctx.tvalue(p))
            v = ctx.gep(bt, base, idx)
            if s.bigtabs:
                # remember the shape for table-load rewriting
                s.lp_selectors[('gep', dst)] = (bt, base, idx, v)
            # remember the address expression: loads/stores through this SSA value are emitted on the expression itself, so that CBMC sees
            # a typed member/element access (a store through a pointer temporary with symbolic index is a whole-object byte update)
            s.gepmap[ctx.lname(dst)] = s.expand_gep(v.c)
            if getattr(v, 'lv', None) is not None: s.geplv[ctx.lname(dst)] = s.expand_gep(v.lv)
            return s.define(dst, v.t, v.c)
        if op == 'load':
            p.accept('atomic'); p.accept('volatile'); t = p.type(); p.expect(','); a = ctx.tvalue(p)
            if s.bigtabs:
                r = s.tab_load(t, a)
                if r is not None: return s.define(dst, t, r)
            return s.define(dst, t, s.lvalue(a))
        if op == 'store':
            p.accept('atomic'); p.accept('volatile'); v = ctx.tvalue(p); p.expect(','); a = ctx.tvalue(p)
            return ['%s = %s;' % (s.lvalue(a), v.c)]
        if op == 'fence': return []
        if op == 'atomicrmw':
            p.accept('volatile'); k = p.next()[1]; a = ctx.tvalue(p); p.expect(','); v = ctx.tvalue(p)
            o = {'add': '+', 'sub': '-', 'and': '&', 'or': '|', 'xor': '^'}.get(k)
            out = s.define(dst, v.t, '*%s' % a.c)
            if k == 'xchg': out.append('*%s = %s;' % (a.c, v.c))
            elif o: out.append('*%s = (%s)(*%s %s %s);' % (a.c, em.ctype(v.t), a.c, o, v.c))
            else: raise NotImplementedError('atomicrmw ' + k)
            return out
        if op == 'cmpxchg':
            p.accept('weak'); p.accept('volatile'); a = ctx.tvalue(p); p.expect(','); c = ctx.tvalue(p); p.expect(','); n = ctx.tvalue(p)
            st = StructT([c.t, IntT(1)])
            nm = ctx.lname(dst)
            out = s.define(dst, st, '(%s){ *%s, 0 }' % (em.ctype(st), a.c))
            out.append('if (%s.f0 == %s) { *%s = %s; %s.f1 = 1; }' % (nm, c.c, a.c, n.c, nm))
            return out
        if op == 'alloca':
            p.accept('inalloca')
            t = p.type()
            n = None
            if p.accept(','):
                if p.peek()[1] != 'align': n = ctx.tvalue(p)
            nm = ctx.lname(dst)
            if n is not None:
                if n.const is None: raise NotImplementedError('dynamic alloca')
                t = ArrT(n.const, t)
                s.decls.append('%s %s_mem;' % (em.ctype(t), nm))
                return s.define(dst, PtrT(t.el), '&%s_mem.a[0]' % nm)
            s.decls.append('%s %s_mem;' % (em.ctype(t), nm))
            return s.define(dst, PtrT(t), '&%s_mem' % nm)
        if op == 'br':
            if p.peek()[1] == 'label':
                return [s.goto(s.label(p))]
            c = ctx.tvalue(p); p.expect(','); a = s.label(p); p.expect(','); b = s.label(p)
            return ['if (%s) { %s } else { %s }' % (c.c, s.goto(a), s.goto(b))]
        if op == 'switch':
            v = ctx.tvalue(p); p.expect(','); d = s.label(p); p.expect('[')
            out = []
            while not p.accept(']'):
                cv = ctx.tvalue(p); p.expect(','); lb = s.label(p)
                out.append('if (%s == %s) { %s }' % (v.c, cv.c, s.goto(lb)))
            out.append(s.goto(d))
            return out
        if op == 'ret':
            t = p.type()
            if isinstance(t, VoidT): return ['return;']
            return ['return %s;' % ctx.value(p, t).c]
        if op == 'unreachable':
            return ['__VX_ASSERT(0, "llvm unreachable executed in %s"); __CPROVER_assume(0); return %s;' % (gname(s.curfn), s.retzero)]
        if op in ('call', 'invoke'):
            return s.call(p, dst, op)
        if op == 'landingpad':
            t = p.type()
            clauses = []
            while not p.eof():
                w = p.next()[1]
                if w == 'cleanup': pass
                elif w == 'catch':
                    cv = ctx.tvalue(p); clauses.append(cv)
                elif w == 'filter':
                    ft = p.type()
                    if p.peek()[1] == 'zeroinitializer' or (p.peek()[1] == '[' and p.peek(1)[1] == ']'):
                        while not p.eof() and p.peek()[1] not in ('catch', 'cleanup', 'filter'): p.next()
                        clauses.append('FILTER0')
                    else:
                        raise NotImplementedError('non-empty filter clause')
            ct = em.ctype(t)
            nm = ctx.lname(dst)
            out = s.define(dst, t, '(%s){ (uint8_t*)__vx_exc_obj, 0 }' % ct)
            for c in clauses:
                if c == 'FILTER0':
                    out.append('if (%s.f1 == 0) %s.f1 = (uint32_t)-1;' % (nm, nm)); continue
                if c.const == 0:   # catch (...)
                    out.append('if (%s.f1 == 0) %s.f1 = 1;' % (nm, nm))
                else:
                    tin = c.gbase[0] if c.gbase else None
                    if tin is None: raise NotImplementedError('catch clause operand ' + c.c)
                    i = s.ti_id(tin)
                    out.append('if (%s.f1 == 0 && __vx_catches(%d, __vx_exc_type)) %s.f1 = %d;' % (nm, i, nm, i))
            out.append('__vx_pending = 0;')
            return out
        if op == 'resume':
            v = ctx.tvalue(p)
            return ['__vx_pending = 1; return %s;' % s.retzero]
        if op == 'extractvalue':
            a = ctx.tvalue(p); e = a.c; t = a.t
            while p.accept(','):
                k = int(p.next()[1]); rt = em.resolve(t)
                if isinstance(rt, StructT): e = '%s.f%d' % (e, k); t = rt.fields[k]
                else: e = '%s.a[%d]' % (e, k); t = rt.el
            return s.define(dst, t, e)
        if op == 'insertvalue':
            a = ctx.tvalue(p); p.expect(','); v = ctx.tvalue(p); path = ''
            t = a.t
            while p.accept(','):
                k = int(p.next()[1]); rt = em.resolve(t)
                if isinstance(rt, StructT): path += '.f%d' % k; t = rt.fields[k]
                else: path += '.a[%d]' % k; t = rt.el
            out = s.define(dst, a.t, a.c)
            out.append('%s%s = %s;' % (ctx.lname(dst), path, v.c))
            return out
        if op == 'freeze':
            a = ctx.tvalue(p); return s.define(dst, a.t, a.c)
        raise NotImplementedError('instruction ' + op)

    def tab_load(s, t, a):
        """rewrite loads that (may) read a big constant table"""
        em = s.em
        ct = em.ctype(t)
        if not any(ct == bt[0] for bt in s.bigtabs.values()): return None
        # direct: constant-expression GEP rooted at the table
        if a.gbase and a.gbase[0] in s.bigtabs:
            path = a.gbase[1]
            if len(path) == 1 and path[0][0] == 'a':
                return 'vxtab_%s((uint64_t)%s)' % (gname(a.gbase[0]), path[0][1].c)
            if not path: return 'vxtab_%s(0)' % gname(a.gbase[0])
            raise NotImplementedError('table access shape')
        # through a named SSA value produced by a GEP in this function
        mm = re.fullmatch(r'v_\w+', a.c)
        if mm:
            for (k, d), (bt, base, idx, v) in s.lp_selectors.items():
                if k == 'gep' and d is not None and s.ctx.lname(d) == a.c:
                    if base.gbase and base.gbase[0] in s.bigtabs and len(idx) == 2 and idx[0].const == 0 and not base.gbase[1]:
                        return 'vxtab_%s((uint64_t)%s)' % (gname(base.gbase[0]), idx[1].c)
                    if len(idx) == 1 and em.ctype(bt) == ct:
                        return 'vx_tabload_%s(%s, %s)' % (ct, base.c, s.ctx.sidx(idx[0]))
                    return None
            # pointer of unknown origin (phi, argument ...): dispatch with index 0
            return 'vx_tabload_%s(%s, 0)' % (ct, a.c)
        return None

    def call(s, p, dst, op):
        ctx = s.ctx; em = s.em
        while p.peek()[1] in FLAGS: p.next()
        skip_attrs(p)
        rt = p.type(); skip_attrs(p)
        ft = None
        if isinstance(rt, FuncT): ft = rt; rt = ft.ret
        k, callee = p.next()
        cal_v = None
        if k == 'word' and callee in CONSTEXPR_OPS:
            p.i -= 1
            cal_v = ctx.constexpr(p)
        elif k == 'word' and callee == 'asm':
            raise NotImplementedError('inline asm')
        args = []
        p.expect('(')
        if not p.accept(')'):
            while True:
                t = p.type(); col = {}; skip_attrs(p, col)
                if isinstance(t, MetaT):
                    while p.peek()[1] not in (',', ')'): p.next()
                    args.append(None)
                else:
                    v = ctx.value(p, t)
                    if 'byval' in col:
                        tmp = 'bv%d' % len(s.decls)
                        s.decls.append('%s %s;' % (em.ctype(col['byval']), tmp))
                        v = V('(%s = *%s, &%s)' % (tmp, v.c, tmp), t)
                    args.append(v)
                if p.accept(')'): break
                p.expect(',')
        nounwind_site = any(k == 'attr' and 'nounwind' in s.m.attrgroups.get(v, ()) for k, v in p.t[p.i:])
        normal = unwind = None
        if op == 'invoke':
            while p.peek()[1] != 'to': p.next()
            p.expect('to'); normal = s.label(p); p.expect('unwind'); unwind = s.label(p)
        out = []
        name = callee if callee[0] == '@' else None
        if name and name in s.m.aliases: name = s.m.aliases[name]
        if name and name.startswith('@llvm.'):
            out += s.intrinsic(name, args, dst, rt)
        else:
            if name:
                fn = gname(name)
                # direct call through a mismatching prototype (bitcast callee) is handled below via cal_v
            elif cal_v is not None:
                fty = ft or FuncT(rt, [a.t for a in args], False)
                fn = '((%s*)%s)' % (em.fntype(fty), cal_v.c)
                name = cal_v.gbase[0] if cal_v.gbase else None
            else:
                fty = ft or FuncT(rt, [a.t for a in args], False)
                fn = '((%s*)%s)' % (em.fntype(fty), ctx.lname(callee))
                slot = s.virtual_slot(callee)
                if slot is not None:
                    key = s.loose_key(fty)
                    shape = [(c, vt) for c, vt in s.vtable_slots().get(slot, ()) if s.loose_key(s.m.funcs[c].ftype if c in s.m.funcs else s.m.decls[c]) == key]
                    # dispatch on the VALUE of the vtable pointer: one branch per address point of the closure whose entry at this slot has
                    # this signature shape (static pointee types are unreliable after optimisation: vptr-only classes are isomorphic), plus
                    # harness-supplied targets (vx_vslot_*) compared by function address for objects with a fake vtable
                    vc = s.vptr_cands(slot, key)
                    hints = sorted(set(c for c, vt in shape if vt == '@vx_hint'))
                    if vc or hints:
                        s.devirt = getattr(s, 'devirt', 0) + 1
                        return s.devirt_call(vc, hints, ctx.lname(s.virtual_vptr(callee)), ctx.lname(callee), args, dst, rt, op, normal, unwind)
                s.raw_indirect = getattr(s, 'raw_indirect', []) + ['slot=%s this=%s' % (slot, s.static_ti(fty))]
                if slot is not None:
                    # a virtual call for which the closure holds no target at all: the receiver's class is not part of the closure.  A raw call
                    # through the pointer would make CBMC try every address-taken function; reaching it is reported as outside the encoding.
                    out.append('__VX_ASSERT(0, "VX-INTERNAL: virtual call (slot %d) in %s on an object whose class is not part of the closure"); __CPROVER_assume(0);' % (slot, gname(getattr(ctx.f, 'name', '?'))[:80]))
                    if dst is not None and not isinstance(em.resolve(rt), VoidT):
                        out += s.define(dst, rt, '(%s)0' % em.ctype(rt))
                    if op == 'invoke': out.append(s.goto(normal))
                    return out
            if name == '@__cxa_throw' and len(args) == 3 and args[2].gbase:
                s.throw_dtors.add(args[2].gbase[0])
            if name == '@__CPROVER_assert':
                lit = s.strlit(args[1])
                s.asserts.append(lit)
                e = '__CPROVER_assert(%s, "%s")' % (args[0].c, lit)
                out.append(e + ';')
            elif name == '@__CPROVER_assume':
                out.append('__CPROVER_assume(%s);' % args[0].c)
            elif name == '@__dynamic_cast':
                out += s.define(dst, rt, '__vx_dynamic_cast(%s)' % ', '.join(a.c for a in args))
            elif name in ('@memcpy', '@memmove', '@memset') and len(args) == 3:
                # zero-length calls are skipped: a null / one-past pointer with length 0 is not reported (C library precondition only)
                if args[2].const is None: fn = '__vx_' + fn    # symbolic length: explicit byte loop (see cxxrt.h)
                call = '%s((void*)%s, %s%s, %s)' % (fn, args[0].c, '' if name == '@memset' else '(const void*)', args[1].c, args[2].c)
                out.append('if (%s) %s;' % (args[2].c, call))
                if dst is not None: out += s.define(dst, rt, '(%s)%s' % (em.ctype(rt), args[0].c))
            else:
                e = '%s(%s)' % (fn, ', '.join(a.c for a in args))
                if dst is not None and not isinstance(em.resolve(rt), VoidT):
                    out += s.define(dst, rt, e)
                else:
                    out.append(e + ';')
        if op == 'invoke':
            out.append('if (__vx_pending) { %s } else { %s }' % (s.goto(unwind), s.goto(normal)))
        else:
            quiet = name and (name.startswith('@llvm.') or name in NOTHROW or name.startswith('@nondet_') or s.nounwind(name))
            if not quiet and not nounwind_site:
                out.append('if (__vx_pending) return %s;' % s.retzero)
        return out

    def static_ti(s, fty):
        if not fty.params or not isinstance(fty.params[0], PtrT) or not isinstance(fty.params[0].to, NamedT): return None
        nm = fty.params[0].to.name.strip('%').strip('"')
        mm = re.fullmatch(r'(?:class|struct)\.([\w:]+?)(?:\.\d+)?', nm)
        if not mm: return None
        parts = mm.group(1).split('::')
        mang = ''.join('%d%s' % (len(p), p) for p in parts)
        return '@_ZTI' + (('N' + mang + 'E') if len(parts) > 1 else mang)

    def precise_cands(s, slot, fty, key):
        """targets of a virtual call through slot `slot` on a pointer of static class S: for every class C in the closure that has S as a
        (non-virtual) base at offset o, the entry at that slot of the sub-vtable of C whose offset-to-top is -o.  None when S is unknown."""
        sti = s.static_ti(fty)
        if not hasattr(s, '_anc'): s._anc = s.typeinfo_tables()
        if sti is None or sti not in s._anc: return None
        s.vtable_slots()
        if not hasattr(s, '_vpts'): s._vpts = s.vtable_points()
        out = set(); seen_class = False
        for n, ai, top, ti in s._vpts:
            acc = s._anc.get(ti)
            if not acc or sti not in acc: continue
            seen_class = True
            if -acc[sti] != top: continue
            fn = s._vsub.get((n, ai), {}).get(slot)
            if fn is None: continue
            if s.loose_key(s.m.funcs[fn].ftype if fn in s.m.funcs else s.m.decls[fn]) == key: out.add(fn)
        # harness-supplied targets for raw objects
        for c, vt in s.vtable_slots().get(slot, ()):
            if vt == '@vx_hint' and s.loose_key(s.m.funcs[c].ftype if c in s.m.funcs else s.m.decls[c]) == key: out.add(c)
        return sorted(out) if seen_class or out else None

    def class_compatible(s, vtable, fty):
        """the class owning `vtable` must derive from (or be) the static class of `this` at the call site, when both are known"""
        if not fty.params or not isinstance(fty.params[0], PtrT) or not isinstance(fty.params[0].to, NamedT): return True
        nm = fty.params[0].to.name.strip('%').strip('"')
        mm = re.fullmatch(r'(?:class|struct)\.([\w:]+?)(?:\.\d+)?', nm)
        if not mm: return True
        parts = mm.group(1).split('::')
        mang = ''.join('%d%s' % (len(p), p) for p in parts)
        static_ti = '@_ZTI' + (('N' + mang + 'E') if len(parts) > 1 else mang)
        if not hasattr(s, '_anc'): s._anc = s.typeinfo_tables()
        cls_ti = '@_ZTI' + vtable[len('@_ZTV'):]
        if static_ti not in s._anc or cls_ti not in s._anc: return True      # unknown hierarchy: keep the candidate
        return static_ti in s._anc[cls_ti]

    def loose_key(s, ft):
        """signature shape with all pointer types identified ('this' is the derived class in the vtable entry, a base at the call site)"""
        def k(t):
            rt = s.em.resolve(t)
            return 'p' if isinstance(rt, PtrT) else rt.key()
        return (k(ft.ret), tuple(k(p) for p in ft.params), ft.varargs)

    def devirt_call(s, vcands, hints, vptr, fp, args, dst, rt, op, normal, unwind):
        """virtual call: explicit dispatch on the vtable pointer over the address points of the closure (no load from a vtable through a
        symbolic pointer is needed to decide the target), then on the function address for harness-supplied targets"""
        em = s.em; out = []
        void = isinstance(em.resolve(rt), VoidT)
        if dst is not None and not void:
            s.ctx.vals[dst] = rt; s.decls.append('%s %s;' % (em.ctype(rt), s.ctx.lname(dst)))
        def callx(c):
            cft = s.m.funcs[c].ftype if c in s.m.funcs else s.m.decls[c]
            al = ', '.join(('(%s)%s' % (em.ctype(pt), a.c)) if isinstance(em.resolve(pt), PtrT) else a.c for a, pt in zip(args, cft.params))
            x = '%s(%s)' % (gname(c), al)
            if dst is not None and not void:
                x = '%s = %s%s' % (s.ctx.lname(dst), ('(%s)' % em.ctype(rt)) if isinstance(em.resolve(rt), PtrT) else '', x)
            return x
        chain = []
        byfn = {}
        for n, ai, c in vcands: byfn.setdefault(c, []).append('__vx_vp == (void*)&%s.f%d.a[2]' % (gname(n), ai))
        for c in sorted(byfn):
            chain.append('if (%s) { %s; }' % (' || '.join(byfn[c]), callx(c)))
        for c in hints:
            chain.append('if ((void*)%s == (void*)&%s) { %s; }' % (fp, gname(c), callx(c)))
        out.append('{ void* __vx_vp = (void*)%s; ' % vptr + ' else '.join(chain) + ' else { __VX_ASSERT(0, "VX-INTERNAL: virtual call target in %s is not a vtable entry of this slot and signature in the closure"); __CPROVER_assume(0); } }' % gname(getattr(s.ctx.f, 'name', '?'))[:90])
        allc = sorted(byfn) + hints
        if op == 'invoke':
            out.append('if (__vx_pending) { %s } else { %s }' % (s.goto(unwind), s.goto(normal)))
        elif not all(s.nounwind(c) for c in allc):
            out.append('if (__vx_pending) return %s;' % s.retzero)
        return out

    def strlit(s, v):
        if v.gbase:
            g = s.m.globals.get(v.gbase[0])
            if g and g[1] and g[1][0][0] == 'cstr':
                return bytes(cbytes(g[1][0][1])[:-1]).decode().replace('"', "'").replace('\\', '/')
        raise NotImplementedError('__CPROVER_assert description must be a string literal: ' + v.c)

    def intrinsic(s, name, args, dst, rt):
        base = name[len('@llvm.'):]
        em = s.em
        if base.startswith(('lifetime.', 'dbg.', 'experimental.noalias', 'invariant.', 'prefetch', 'donothing', 'var.annotation')):
            return []
        if base.startswith(('memcpy.', 'memmove.')):
            fn = 'memmove' if base.startswith('memmove') else 'memcpy'
            if args[2].const is None: fn = '__vx_' + fn      # symbolic length: explicit byte loop (see cxxrt.h)
            return ['if (%s) %s((void*)%s, (const void*)%s, %s);' % (args[2].c, fn, args[0].c, args[1].c, args[2].c)]
        if base.startswith('memset.'):
            return ['if (%s) %s((void*)%s, %s, %s);' % (args[2].c, 'memset' if args[2].const is not None else '__vx_memset', args[0].c, args[1].c, args[2].c)]
        if base == 'assume': return ['__CPROVER_assume(%s);' % args[0].c]
        if base.startswith('expect.'): return s.define(dst, rt, args[0].c)
        if base in ('trap', 'debugtrap'): return ['__VX_ASSERT(0, "llvm.trap executed"); __CPROVER_assume(0);']
        if base == 'eh.typeid.for':
            if args[0].const == 0: return s.define(dst, rt, '1')
            return s.define(dst, rt, '%d' % s.ti_id(args[0].gbase[0]))
        if base.startswith('objectsize.'): return s.define(dst, rt, '(%s)-1' % em.ctype(rt))
        if base.startswith(('stacksave', 'stackrestore')):
            return s.define(dst, rt, '(%s)0' % em.ctype(rt)) if dst else []
        m = re.match(r'(umin|umax|smin|smax)\.i(\d+)', base)
        if m:
            o, b = m.group(1), int(m.group(2)); it = IntT(b)
            a, c = args[0].c, args[1].c
            if o[0] == 's': a2, c2 = s.sval(it, a), s.sval(it, c)
            else: a2, c2 = a, c
            cmp = '<' if o.endswith('min') else '>'
            return s.define(dst, rt, '(%s %s %s ? %s : %s)' % (a2, cmp, c2, a, c))
        m = re.match(r'abs\.i(\d+)', base)
        if m:
            it = IntT(int(m.group(1))); a = args[0].c
            return s.define(dst, rt, '(%s)(%s < 0 ? -%s : %s)' % (em.ctype(rt), s.sval(it, a), s.sval(it, a), s.sval(it, a)))
        m = re.match(r'bswap\.i(\d+)', base)
        if m: return s.define(dst, rt, '__builtin_bswap%s(%s)' % (m.group(1), args[0].c))
        m = re.match(r'(ctlz|cttz|ctpop)\.i(\d+)', base)
        if m: return s.define(dst, rt, '(%s)__vx_%s%s(%s)' % (em.ctype(rt), m.group(1), m.group(2), args[0].c))
        m = re.match(r'(uadd|usub|umul|sadd|ssub|smul)\.with\.overflow\.i(\d+)', base)
        if m:
            o, b = m.group(1), int(m.group(2))
            if b not in (32, 64): raise NotImplementedError(name)
            bi = {'uadd': 'add', 'usub': 'sub', 'umul': 'mul', 'sadd': 'add', 'ssub': 'sub', 'smul': 'mul'}[o]
            ut = 'uint%d_t' % b; stt = 'int%d_t' % b
            ty = ut if o[0] == 'u' else stt
            nm = s.ctx.lname(dst)
            out = s.define(dst, rt, '(%s){0}' % em.ctype(rt))
            out.append('{ %s r_; %s.f1 = __builtin_%s_overflow((%s)%s, (%s)%s, &r_); %s.f0 = (%s)r_; }' % (ty, nm, bi, ty, args[0].c, ty, args[1].c, nm, ut))
            return out
        m = re.match(r'(fshl|fshr)\.i(\d+)', base)
        if m:
            b = int(m.group(2)); a, c, sh = args[0].c, args[1].c, args[2].c
            if b not in (8, 16, 32, 64): raise NotImplementedError(name)
            ct = em.ctype(rt)
            if m.group(1) == 'fshl':
                e = '((%s %% %d) == 0 ? %s : (%s)((%s << (%s %% %d)) | (%s >> (%d - (%s %% %d)))))' % (sh, b, a, ct, a, sh, b, c, b, sh, b)
            else:
                e = '((%s %% %d) == 0 ? %s : (%s)((%s >> (%s %% %d)) | (%s << (%d - (%s %% %d)))))' % (sh, b, c, ct, c, sh, b, a, b, sh, b)
            return s.define(dst, rt, e)
        m = re.match(r'(fabs|floor|ceil|sqrt|trunc|round)\.f64', base)
        if m: return s.define(dst, rt, '%s(%s)' % (m.group(1), args[0].c))
        raise NotImplementedError('intrinsic ' + name)

def translate(text, opts=None):
    m = parse_module(text)
    tr = Translator(m, opts)
    c = tr.run()
    info = {'functions_defined': sorted(gname(n) for n in m.funcs), 'autostubs': sorted(gname(n) for n in tr.autostubs),
            'asserts': tr.asserts, 'bigtabs': {gname(n): len(v[2]) for n, v in tr.bigtabs.items()},
            'extern_globals': sorted(gname(n) for n, g in m.globals.items() if g[1] is None and not n.startswith('@_ZTVN10__cxxabiv1')),
            'raw_indirect_calls': getattr(tr, 'raw_indirect', []),
            'nondet': sorted(gname(n) for n in m.decls if n.startswith('@nondet_')),
            'nondet_types': {gname(n): tr.em.ctype(ft.ret) for n, ft in m.decls.items() if n.startswith('@nondet_')}}
    return c, info

if __name__ == '__main__':
    opts = json.loads(sys.argv[3]) if len(sys.argv) > 3 else {}
    c, info = translate(open(sys.argv[1]).read(), opts)
    open(sys.argv[2], 'w').write(c)
    json.dump(info, open(sys.argv[2] + '.info.json', 'w'), indent=1)
