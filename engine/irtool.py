#!/usr/bin/env python3
"""Textual edits on (unoptimised) LLVM IR: cut definitions to declarations, list symbols, add attributes."""
import re, fnmatch

DEF_RE = re.compile(r'^define\s[^\n]*?(@(?:"[^"]+"|[-\w.$]+))\(', re.M)

def _find_defs(src):
    """yield (name, start, params_start, params_end, body_end, header_prefix)"""
    for m in DEF_RE.finditer(src):
        name = m.group(1)
        i = m.end(); depth = 1
        while depth:
            c = src[i]
            if c == '(': depth += 1
            elif c == ')': depth -= 1
            elif c == '"':
                i = src.index('"', i + 1)
            i += 1
        end = src.index('\n}\n', i) + 3
        yield name, m.start(), m.end(), i - 1, end, src[m.start():m.start(1)]

def defined(src):
    return [d[0] for d in _find_defs(src)]

def cut(src, names, report=None, only_linkonce=False):
    """turn the definitions matching any of the names / fnmatch patterns into declarations"""
    pats = [n if n.startswith('@') else '@' + n for n in names]
    out = []; pos = 0; hit = set()
    for name, st, ps, pe, end, prefix in _find_defs(src):
        bare = name.strip('@').strip('"')
        mt = [p for p in pats if fnmatch.fnmatchcase(bare, p[1:].strip('"'))]
        if not mt: continue
        if only_linkonce and not re.search(r'\b(linkonce_odr|linkonce|weak_odr|available_externally)\b', prefix): continue
        hit.update(mt)
        hdr = re.sub(r'^define', 'declare', prefix)
        hdr = re.sub(r'\b(dso_local|linkonce_odr|linkonce|weak_odr|internal|private|hidden|weak|available_externally|unnamed_addr|local_unnamed_addr)\b\s*', '', hdr)
        params = src[ps:pe]
        tail = src[pe + 1:src.index('{', pe)]
        attrs = ' '.join(re.findall(r'#\d+', tail))
        out.append(src[pos:st]); out.append('%s%s(%s) %s\n' % (hdr, name, params, attrs)); pos = end
        if report is not None: report.append(bare)
    out.append(src[pos:])
    res = ''.join(out)
    # aliases (e.g. complete-object constructor C1 = alias of base-object constructor C2) of cut symbols become declarations too
    def alias_sub(m):
        name = m.group(1); bare = name.strip('@').strip('"')
        mt = [p for p in pats if fnmatch.fnmatchcase(bare, p[1:].strip('"'))]
        if not mt or only_linkonce: return m.group(0)
        hit.update(mt)
        fty = m.group(2).strip()          # e.g.  void (%"class.X"*, i8*)
        k = fty.index('(')
        if report is not None: report.append(bare)
        return 'declare %s %s%s\n' % (fty[:k].strip(), name, fty[k:])
    res = re.sub(r'^(@(?:"[^"]+"|[-\w.$]+)) = [^\n]*?\balias ([^\n]*?\)), [^\n]*\n', alias_sub, res, flags=re.M)
    return res, hit

def cut_linkonce(src, names, report=None):
    """remove inline (linkonce_odr) definitions so that a replacement defined under the same symbol (asm label) in a stub TU is used"""
    return cut(src, names, report, only_linkonce=True)

def add_fn_attr(src, attr):
    """append a function attribute to every attribute group, and give attribute-less definitions none (best effort)"""
    return re.sub(r'^(attributes #\d+ = \{)', r'\1 %s' % attr, src, flags=re.M)

def undefined(src):
    """names declared but not defined"""
    return re.findall(r'^declare\s[^\n]*?(@(?:"[^"]+"|[-\w.$]+))\(', src, re.M)

if __name__ == '__main__':
    import sys
    s = open(sys.argv[1]).read()
    s2, hit = cut(s, sys.argv[3:])
    open(sys.argv[2], 'w').write(s2)
    print('cut', sorted(hit))
